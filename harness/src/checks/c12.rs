//! C12 — aliases are transparent; alias conflicts are rejected.
//!
//! Part A (transparency, stateless exhaustive substitution). Four base ledgers (L1..L3 below, L4 for part D) declare accounts and
//! commodities with one or two aliases each and mention the declared names in every syntactic position
//! (posting account with amount / assertion / assignment / omitted amount, amount commodity, `@` and `@@`
//! cost, `{}` and `{{}}` lot, assertion and assignment commodity, terms of a parenthesised expression,
//! implied exchange, amounts that only balance thanks to the declared `format` precision). Every mention
//! that comes after the declaration is a *site*: an n-ary choice canonical / alias1 / alias2 (only aliases
//! declared above the site are offered, so the three ledgers also vary the order of declaration versus first
//! use: declarations on top, after a first use of the canonical name, and between two uses). ALL assignments
//! are explored. Oracle: the observation of the substituted ledger (Ledger::balance, all postings, postings
//! per account, date-range balance through the API; `balance`, `register`, `register <account>`,
//! `balance -X`, `balance -X --historical`, `balance --start --end` through the real CLI on a real file) is
//! identical to the observation of the all-canonical ledger, which itself is pinned to a hand-checked report.
//!
//! Part C (transparency of a price database). For the base ledgers that declare commodities (L2, L3) a price DB
//! file (`--price-db`, ProcessOptions::price_db_path; real scratch file) whose `P` lines mention the declared
//! commodities on the target and on the rate side: ALL assignments canonical/alias1/alias2 to every mention site
//! of the DB, once with the ledger in canonical names and once with the ledger written through aliases. Oracle:
//! acceptance, Ledger::balance, transactions, Ledger::balance converted to USD and JPY, and the CLI `balance`,
//! `register`, `balance -X USD|JPY` with `--price-db` equal the canonical ledger + canonical DB run (whose
//! `balance -X USD` report is pinned to a hand-checked text) and show canonical names only.
//!
//! Part D (register by account is complete — an ABSOLUTE clause, not relative to the canonical run, which declares
//! the same aliases). For every account that occurs in a ledger, `Ledger::postings(account)` / `okane register FILE
//! <account>` lists exactly that account's postings of `Ledger::transactions()` / of the unrestricted register.
//! Checked through the API in every case of parts A and C (default map order), and for the canonical form and every
//! single account-site substitution of the four base ledgers through API and CLI under every execution with <= d
//! non-default iteration orders of okane's internal maps (verif hook; d = 1 quick, 2 thorough). L4 puts canonical
//! account records before, between and after the alias records of the account table.
//!
//! Part E (value classes the small alphabets lack). E1/E2: alias and canonical names over every printable ASCII
//! punctuation character, digits, inner blanks and non-ASCII characters in every position of the name and all
//! ordered pairs; judged when the name is legal by doc/syntax.md and a declaration-free control ledger can write a
//! posting with it; absolute oracle (everything booked under the declared canonical name). E3: blanks after and
//! before directive arguments (space, tab: MUST / if-accepted; U+00A0, U+3000, U+2003: DON'T-CARE, doc and tree
//! disagree). E4: directive before / after first use, in an included file, used from an included file, repeated.
//!
//! Part F (amounts handed to a query): an amount written with an alias and given to Ledger::eval / `okane primitive eval`
//! is an amount in the canonical commodity; `-X <alias>`, if honoured, gives the `-X <canonical>` report.
//!
//! Part G (the amount of a `format` line). `format <amount>` carries an amount like any other; written below the
//! `alias` line, its commodity spelled by the alias must mean the same as the canonical name: the declared precision
//! (which transactions balance, how ranged / converted balances are rounded) does not depend on the spelling. All
//! 3 aliases (symbol, word, non-ASCII) x 7 placements of the format line relative to the alias line (same block
//! after / between / above the alias lines, a second `commodity` block directly / after a first use, format or
//! aliases in an included file) x 5 format styles (precision 0..3) x 2 bodies (a transaction that balances only at
//! the declared precision; exact transactions with rounded ranged and converted balances) x 2 spellings of the body;
//! reference = the canonical name in the format line, pinned to hand-checked values. A format amount without
//! commodity, with a foreign / undeclared commodity or with an alias declared BELOW the line is executed, not judged.
//!
//! Part B (conflicts, explicit-state search over histories). Names {p,q,r}, two name spaces (accounts,
//! commodities). Actions: use a name in a posting, `account c`, `account c` + `alias a` (incl. a = c),
//! `account c` + `alias a` + `alias b` (same for `commodity`). Reference state K = alias table
//! name -> unused | canonical-by-use | canonical-by-declaration | alias-of(c), per name space.
//!  B1: BFS with de-duplication on K over the mixed 42-action alphabet (both name spaces in one ledger);
//!  B2: every raw action sequence per name space up to a depth bound (no de-duplication).
//! A case is an edge (accepted history, action): the history + action is rendered as a ledger and run on the
//! real code; accepted results are observed through the balances after a probe suffix that uses every name
//! once (each use carries its own power of two, so any merge or split of balances is visible).

use std::collections::{BTreeMap, BTreeSet};
use std::path::{Path, PathBuf};

use okane_core::report::query::{BalanceQuery, DateRange, PostingQuery};

use crate::bfs;
use crate::fw::{self, CheckDef, Ctx, Outcome, Tier};
use crate::oka::{self, Balances, TxnView};
use crate::q::{qmap_add, qmap_show, QMap, Q};

pub const DEF: CheckDef = CheckDef {
    id: "C12",
    run,
    technique: "part A: stateless exhaustive substitution (every assignment canonical/alias1/alias2 to every mention site of three base ledgers, metamorphic comparison with the all-canonical run through the API and the in-process CLI); part C: the same exhaustive substitution over the mention sites of a price-database file given with --price-db; part D: absolute completeness of the per-account register under every map-iteration order with <= d deviations (order-controllable map behind --cfg okane_verif); part E: exhaustive enumeration of name value classes (every printable ASCII punctuation character, digits, blanks, non-ASCII, all positions and ordered pairs), of blanks around directive arguments and of directive placements (incl. included files) against an absolute oracle; part F: aliases in amounts given to Ledger::eval / `primitive eval` / `-X`; part G: exhaustive product alias x placement of the `format` line x format style x precision-dependent ledger body x spelling of the format amount, metamorphic comparison with the canonical spelling (pinned to hand-checked values) through the API and the in-process CLI; part B: explicit-state BFS over alias tables plus all raw action sequences up to a depth bound, each edge re-running the real book-keeping on the whole history and observing the resulting table through probe postings",
    rule: "part A case = (base ledger, assignment of a declared name to each of its 10..15 mention sites); states = distinct substituted ledgers. Part C case = (base ledger L2/L3 in canonical or alias spelling, assignment of a declared name to each of the 9 resp. 7 mention sites of its price DB), all 2 592 resp. 648 assignments in both tiers. Part D case = (base ledger L1..L4, canonical form or one account site written as an alias), inside which all executions with <= 1 (thorough 2) non-default map orders are explored and every account's restricted register is compared with the unrestricted one. Part E case = (account|commodity, name from the shape x character tables, role alias|canonical) resp. (blank variant) resp. (placement, name); same in both tiers. Part G case = (placement of the format line, format style, ledger body, spelling of the body, commodity written in the format amount), 7 x 5 x 2 x 2 x 8 = 1 120 in both tiers; MUST when the commodity is the canonical name or an alias declared above the line. Part B case = (reference-accepted history, next action) over names {p,q,r} x {accounts, commodities}; states = distinct alias tables (B1) resp. distinct histories (B2); transitions = cases executed on the real code. A case is MUST when the statement fixes the outcome: substituted ledger == canonical ledger in every report; alias-already-canonical (declared or merely used) and canonical-already-alias rejected with an error; every other first declaration / use accepted with all balances under the canonical name",
    assumptions: &[
        "the all-canonical form of each base ledger is the reference of part A; its `balance` report is pinned to a hand-checked text so that a change hitting canonical and alias spellings alike is still reported",
        "DON'T-CARE: alias of itself (`account p` + `alias p`), alias re-pointed to another canonical; duplicate declarations (`account p` twice, identical alias twice) may be rejected, but if accepted must leave the table unchanged",
        "aliases given as command-line arguments (`register FILE <alias>`, `-X <alias>`) are outside the statement: a refusal is not judged, a report that is produced must be the canonical one",
        "the amount of a `format` line is an amount in the sense of the statement (syntax::CommodityDetail::Format(expr::Amount)): below the `alias` line its commodity may be spelled by the alias and must then mean the canonical name (part G); what a format amount WITHOUT commodity, with another / an undeclared commodity, or with an alias that is only declared further down means is not stated: executed, not judged; acceptance of a second `commodity` block for the same name is not required, the alias spelling must then behave like the canonical spelling",
        "part E judges a name only if doc/syntax.md allows it (account ::= no-sp (no-sp | ' ' no-sp)*, commodity = characters outside the documented exclusion set, no Unicode blank at either end) and a control ledger without declarations books a posting written with it under exactly that name (so `;`, a leading `*`/`!`/`(`/`[` etc. are DON'T-CARE)",
        "ASCII blanks after the `account`/`commodity` argument must be accepted (doc: sp*); after an `alias` argument the doc has no sp*, so acceptance is not required but if accepted the alias is the trimmed name; a trailing U+00A0/U+3000/U+2003 is DON'T-CARE (doc: part of the name; tree: trimmed)",
        "a `P` line of the price DB given with --price-db counts as a later mention of the commodity (the DB is read after the ledger, i.e. after every declaration); a DB naming only commodities the ledger never mentions is executed but not judged",
        "quick tier: a base ledger with more than 20 000 assignments is explored over all 2^n canonical/one-alias assignments plus all full-arity assignments with at most 2 non-canonical sites; thorough explores all full-arity assignments",
    ],
    shards: 64,
    hang_s: 30,
    single_worker: false,
};

// =================================================================================================
// Part A — transparency
// =================================================================================================

#[derive(Clone, Copy, PartialEq, Eq, Debug)]
enum Kind {
    Account,
    Commodity,
}

struct Entity {
    tag: &'static str,
    kind: Kind,
    canonical: &'static str,
}

struct Base {
    name: &'static str,
    entities: &'static [Entity],
    /// Ledger text; `<TAG position-label>` marks a mention site of entity TAG.
    template: &'static str,
    /// CLI commands: (label, args after `okane`; "{}" is the ledger path)
    commands: &'static [(&'static str, &'static [&'static str])],
    /// accounts for which the API register is queried one by one
    accounts: &'static [&'static str],
    /// the hand-checked `okane balance` report of the canonical form
    expected_balance: &'static str,
    /// part C: a price database for this ledger
    price_db: Option<&'static PriceDb>,
}

struct PriceDb {
    /// price DB text; `<TAG position-label>` marks a mention site (every alias of the ledger is available:
    /// the price DB is read after the whole ledger)
    template: &'static str,
    /// CLI commands: "{}" is the ledger path, "{db}" the price DB path
    commands: &'static [(&'static str, &'static [&'static str])],
    /// the hand-checked `okane balance -X USD --price-db ...` report (commands[2]) of the canonical form
    expected_x_usd: &'static str,
}

const DB_COMMANDS: &[(&str, &[&str])] = &[
    ("balance", &["balance", "--price-db", "{db}", "{}"]),
    ("register", &["register", "--price-db", "{db}", "{}"]),
    ("balance-X-USD", &["balance", "-X", "USD", "--price-db", "{db}", "--now", "2024-02-01", "{}"]),
    ("balance-X-JPY", &["balance", "-X", "JPY", "--price-db", "{db}", "--now", "2024-02-01", "{}"]),
];

/// L2: AAPL 170 USD, JPY 0.0066 USD (the later of the two USD/JPY lines), EUR never appears in the ledger.
const DB2: PriceDb = PriceDb {
    template: "P 2024/01/10 <C2 db-target> 170.00 <C0 db-rate>\nP 2024/01/15 <C0 db-target> 151 <C1 db-rate>\nP 2024/01/20 <C1 db-target> 0.0066 <C0 db-rate>\nP 2024/01/25 <C2 db-target> 26,000 <C1 db-rate>\nP 2024/01/31 EUR 1.10 <C0 db-rate>\n",
    commands: DB_COMMANDS,
    expected_x_usd: "Assets:Bank: 1101.00 USD\nAssets:Broker: 510.00 USD\nAssets:Cash: 97.00 USD\nEquity: -1660.00 USD\nExpenses:Food: 3.00 USD\n",
};

/// L3 (declarations after the first uses): JPY 0.0067 USD, AAPL 105 USD; AAPL and EUR are never declared.
const DB3: PriceDb = PriceDb {
    template: "P 2024/01/10 <C0 db-target> 152 <C1 db-rate>\nP 2024/01/20 <C1 db-target> 0.0067 <C0 db-rate>\nP 2024/01/25 AAPL 16,000 <C1 db-rate>\nP 2024/01/28 AAPL 105.00 <C0 db-rate>\nP 2024/01/31 EUR 1.10 <C0 db-rate>\n",
    commands: DB_COMMANDS,
    expected_x_usd: "Assets:Bank: 786.15 USD\nAssets:Broker: 210.00 USD\nAssets:Cash: 9.92 USD\nEquity: -1000.00 USD\nExpenses:Food: 3.35 USD\n",
};

const L1: Base = Base {
    name: "L1-accounts",
    entities: &[Entity { tag: "A0", kind: Kind::Account, canonical: "Assets:Bank" }, Entity { tag: "A1", kind: Kind::Account, canonical: "Expenses:Food" }],
    template: "account Assets:Bank\n  alias bank\n  note an alias may contain spaces\n  ; comment between two aliases\n  alias b b\n\naccount Expenses:Food\n  note eating out\n  alias food\n\n\
2024/01/01 open\n  <A0 posting+amount>  100 USD\n  Equity\n\n\
2024/01/02 eat\n  <A1 posting+amount>  10 USD\n  <A0 posting+amount+assertion>  -10 USD = 90 USD\n\n\
2024/01/03 assign\n  <A0 posting+assignment>  = 50 USD\n  <A1 posting-omitted>\n\n\
2024/01/04 twice in one transaction\n  <A0 posting+amount>  5 USD\n  <A0 posting+amount+assertion>  -5 USD = 50 USD\n  <A1 posting+zero+assertion>  0 USD = 50 USD\n\n\
2024/01/05 omitted amount on the declared account\n  <A1 posting+amount>  7 EUR\n  <A0 posting-omitted>\n\n",
    commands: &[
        ("balance", &["balance", "{}"]),
        ("register", &["register", "{}"]),
        ("register-Assets:Bank", &["register", "{}", "Assets:Bank"]),
        ("register-Expenses:Food", &["register", "{}", "Expenses:Food"]),
        ("balance-range", &["balance", "--start", "2024-01-02", "--end", "2024-01-05", "--now", "2024-02-01", "{}"]),
    ],
    accounts: &["Assets:Bank", "Expenses:Food", "Equity"],
    expected_balance: "Assets:Bank: (-7 EUR + 50 USD)\nEquity: -100 USD\nExpenses:Food: (7 EUR + 50 USD)\n",
    price_db: None,
};

const L2: Base = Base {
    name: "L2-commodities",
    entities: &[Entity { tag: "C0", kind: Kind::Commodity, canonical: "USD" }, Entity { tag: "C1", kind: Kind::Commodity, canonical: "JPY" }, Entity { tag: "C2", kind: Kind::Commodity, canonical: "AAPL" }],
    template: "commodity USD\n  alias $\n  alias dollar\n  format 1,000.00 USD\n\ncommodity JPY\n  alias \u{a5}\n  format 1,000 JPY\n\ncommodity AAPL\n  alias apple\n\n\
2024/01/01 open\n  Assets:Bank  1,000.00 <C0 amount>\n  Assets:Bank  100,000 <C1 amount>\n  Equity\n\n\
2024/01/02 buy at cost\n  Assets:Broker  2 <C2 amount-with-cost> @ 150.00 <C0 cost@>\n  Assets:Bank  -300.00 <C0 amount> = 700.00 <C0 assertion>\n\n\
2024/01/03 fx with total cost\n  Assets:Bank  -15,000 <C1 amount-with-cost> @@ 100.00 <C0 cost@@>\n  Assets:Cash  100.00 <C0 amount>\n\n\
2024/01/04 lot and assignment\n  Assets:Broker  1 <C2 amount-with-lot> {160.00 <C0 lot{}>}\n  Assets:Bank  = 540.00 <C0 assignment>\n\n\
2024/01/05 expression, balanced only at the declared precision\n  Expenses:Food  (1.00 <C0 expr-term> + 2.004 <C0 expr-term>)\n  Assets:Cash  -3.00 <C0 amount>\n\n",
    commands: &[
        ("balance", &["balance", "{}"]),
        ("register", &["register", "{}"]),
        ("register-Assets:Bank", &["register", "{}", "Assets:Bank"]),
        ("balance-X-USD", &["balance", "-X", "USD", "--now", "2024-02-01", "{}"]),
        ("balance-X-JPY", &["balance", "-X", "JPY", "--now", "2024-02-01", "{}"]),
        ("balance-range", &["balance", "--start", "2024-01-02", "--end", "2024-01-05", "--now", "2024-02-01", "{}"]),
    ],
    accounts: &["Assets:Bank", "Assets:Broker", "Assets:Cash"],
    expected_balance: "Assets:Bank: (85000 JPY + 540.00 USD)\nAssets:Broker: 3 AAPL\nAssets:Cash: 97.00 USD\nEquity: (-100000 JPY + -1000.00 USD)\nExpenses:Food: 3.004 USD\n",
    price_db: Some(&DB2),
};

const L3: Base = Base {
    name: "L3-declaration-order-and-prices",
    entities: &[Entity { tag: "A0", kind: Kind::Account, canonical: "Assets:Bank" }, Entity { tag: "C0", kind: Kind::Commodity, canonical: "USD" }, Entity { tag: "C1", kind: Kind::Commodity, canonical: "JPY" }],
    template: "2023/12/31 rate, before any declaration (canonical names only)\n  Equity  0.00 USD @ 149 JPY\n\n\
2024/01/01 open, before any declaration\n  Assets:Bank  1,000.00 USD\n  Equity\n\n\
account Assets:Bank\n  alias bank\n\ncommodity USD\n  format 1,000.00 USD\n  alias $\n  note the format line comes first here\n  alias dollar\n\n\
2024/01/02 sell dollars, price given by the cost; JPY is not declared yet\n  <A0 posting+amount+cost>  -100.00 <C0 amount-with-cost> @ 150 JPY\n  <A0 posting+amount>  15,000 JPY\n\n\
commodity JPY\n  ; comment first\n  format 1,000 JPY\n  alias \u{a5}\n\n\
2024/01/03 implied exchange rate 148\n  <A0 posting+amount>  -10.00 <C0 amount-implied-exchange>\n  Assets:Cash  1,480 <C1 amount-implied-exchange>\n\n\
2024/01/04 assignment in yen\n  Expenses:Food  500 <C1 amount>\n  <A0 posting+assignment>  = 14,500 <C1 assignment>\n\n\
2024/01/05 lot in yen\n  Assets:Broker  2 AAPL {{30,000 <C1 lot{{}}>}} @ 15,100 <C1 cost@>\n  <A0 posting+amount+assertion>  -30,000 <C1 amount> = -15,500 <C1 assertion>\n\n",
    commands: &[
        ("balance", &["balance", "{}"]),
        ("register", &["register", "{}"]),
        ("register-Assets:Bank", &["register", "{}", "Assets:Bank"]),
        ("balance-X-JPY", &["balance", "-X", "JPY", "--now", "2024-02-01", "{}"]),
        ("balance-X-USD", &["balance", "-X", "USD", "--now", "2024-02-01", "{}"]),
        ("balance-X-JPY-historical", &["balance", "-X", "JPY", "--historical", "--now", "2024-02-01", "{}"]),
        ("balance-X-JPY-range", &["balance", "-X", "JPY", "--start", "2024-01-02", "--end", "2024-01-04", "--now", "2024-01-03", "{}"]),
    ],
    accounts: &["Assets:Bank", "Assets:Cash", "Equity"],
    expected_balance: "Assets:Bank: (-15500 JPY + 890.00 USD)\nAssets:Broker: 2 AAPL\nAssets:Cash: 1480 JPY\nEquity: -1000.00 USD\nExpenses:Food: 500 JPY\n",
    price_db: Some(&DB3),
};

/// Canonical account records before, between and after the alias records of the account table
/// (first uses before the first declaration, between the two declarations and after the last one).
const L4: Base = Base {
    name: "L4-accounts-around-alias-declarations",
    entities: &[Entity { tag: "A0", kind: Kind::Account, canonical: "Assets:Bank" }, Entity { tag: "A1", kind: Kind::Account, canonical: "Expenses:Food" }],
    template: "2024/01/01 before any declaration\n  Assets:Cash  5 USD\n  Equity\n\n\
account Assets:Bank\n  alias bank\n\n\
2024/01/02 between the two declarations\n  <A0 posting+amount>  10 USD\n  Income:Salary\n\n\
account Expenses:Food\n  alias food\n\n\
2024/01/03 after the last declaration\n  <A1 posting+amount>  3 USD\n  Assets:Wallet\n\n\
2024/01/04 both declared accounts\n  <A0 posting+amount>  -2 USD\n  <A1 posting-omitted>\n\n",
    commands: &[("balance", &["balance", "{}"]), ("register", &["register", "{}"]), ("register-Assets:Wallet", &["register", "{}", "Assets:Wallet"])],
    accounts: &["Assets:Cash", "Assets:Bank", "Income:Salary", "Expenses:Food", "Assets:Wallet"],
    expected_balance: "Assets:Bank: 8 USD\nAssets:Cash: 5 USD\nAssets:Wallet: -3 USD\nEquity: -5 USD\nExpenses:Food: 5 USD\nIncome:Salary: -10 USD\n",
    price_db: None,
};

const QUICK_CAP: u64 = 20_000;

struct Site {
    entity: usize,
    pos: String,
    /// choices[0] is the canonical name, then the aliases declared above the site
    choices: Vec<String>,
}

enum Piece {
    Lit(String),
    Site(usize),
}

struct Compiled {
    base: &'static Base,
    pieces: Vec<Piece>,
    sites: Vec<Site>,
    /// every alias declared anywhere in the template, per entity
    aliases: Vec<Vec<String>>,
    /// (site, choice) -> does this substitution alone break transparency? (filled on demand, only when a violation is classified)
    single_cache: std::cell::RefCell<BTreeMap<(usize, u8), bool>>,
    /// (alias, canonical) of every declared account alias
    account_aliases: Vec<(String, String)>,
}

fn compile(base: &'static Base) -> Compiled {
    compile_text(base, base.template, None)
}

/// `declared`: aliases already declared before the first line of `template` (the price DB of a ledger).
fn compile_text(base: &'static Base, template: &'static str, declared: Option<&Vec<Vec<String>>>) -> Compiled {
    let mut avail: Vec<Vec<String>> = declared.cloned().unwrap_or_else(|| base.entities.iter().map(|_| vec![]).collect());
    let mut current: Option<usize> = None;
    let mut pieces = vec![];
    let mut sites = vec![];
    for line in template.split_inclusive('\n') {
        let body = line.trim_end_matches('\n');
        if !body.starts_with(' ') {
            current = None;
            for (kw, kind) in [("account ", Kind::Account), ("commodity ", Kind::Commodity)] {
                if let Some(name) = body.strip_prefix(kw) {
                    current = Some(base.entities.iter().position(|e| e.kind == kind && e.canonical == name).unwrap_or_else(|| panic!("harness bug: template declares unknown entity {:?}", name)));
                }
            }
        } else if let (Some(e), Some(alias)) = (current, body.trim_start().strip_prefix("alias ")) {
            avail[e].push(alias.to_string());
        }
        let mut rest = line;
        while let Some(start) = rest.find('<') {
            let end = rest.find('>').expect("harness bug: unterminated site marker");
            if start > 0 {
                pieces.push(Piece::Lit(rest[..start].to_string()));
            }
            let (tag, pos) = rest[start + 1..end].split_once(' ').expect("harness bug: site marker without position label");
            let e = base.entities.iter().position(|x| x.tag == tag).unwrap_or_else(|| panic!("harness bug: unknown entity tag {}", tag));
            let mut choices = vec![base.entities[e].canonical.to_string()];
            choices.extend(avail[e].iter().cloned());
            pieces.push(Piece::Site(sites.len()));
            sites.push(Site { entity: e, pos: pos.to_string(), choices });
            rest = &rest[end + 1..];
        }
        if !rest.is_empty() {
            pieces.push(Piece::Lit(rest.to_string()));
        }
    }
    let account_aliases = base.entities.iter().zip(&avail).filter(|(e, _)| e.kind == Kind::Account).flat_map(|(e, a)| a.iter().map(move |x| (x.clone(), e.canonical.to_string()))).collect();
    Compiled { base, pieces, sites, aliases: avail, single_cache: Default::default(), account_aliases }
}

impl Compiled {
    fn render(&self, digits: &[u8]) -> String {
        let mut s = String::new();
        for p in &self.pieces {
            match p {
                Piece::Lit(t) => s.push_str(t),
                Piece::Site(i) => s.push_str(&self.sites[*i].choices[digits[*i] as usize]),
            }
        }
        s
    }
    fn full_count(&self) -> u64 {
        self.sites.iter().map(|s| s.choices.len() as u64).product()
    }
    fn decode(&self, mut idx: u64) -> Vec<u8> {
        self.sites
            .iter()
            .map(|s| {
                let r = s.choices.len() as u64;
                let d = (idx % r) as u8;
                idx /= r;
                d
            })
            .collect()
    }
    fn encode(&self, digits: &[u8]) -> u64 {
        let mut idx = 0u64;
        for (s, d) in self.sites.iter().zip(digits).rev() {
            idx = idx * s.choices.len() as u64 + *d as u64;
        }
        idx
    }
    /// The assignments explored in this tier (never the all-canonical one), ordered by number of
    /// non-canonical sites, then by index: the first counter-example of a kind is a smallest one.
    fn assignments(&self, tier: Tier) -> (Vec<u64>, &'static str) {
        let full = self.full_count();
        let n = self.sites.len();
        let mut v: Vec<u64>;
        let mode;
        if tier == Tier::Thorough || full <= QUICK_CAP {
            v = (1..full).collect();
            mode = "all full-arity assignments";
        } else {
            mode = "all 2^n canonical/one-alias assignments + all full-arity assignments with <= 2 non-canonical sites";
            let designated = self.designated();
            let free: Vec<usize> = (0..n).filter(|i| self.sites[*i].choices.len() > 1).collect();
            v = Vec::with_capacity(1 << free.len());
            for mask in 1u64..(1u64 << free.len()) {
                let mut d = vec![0u8; n];
                for (b, i) in free.iter().enumerate() {
                    if mask >> b & 1 == 1 {
                        d[*i] = designated[*i];
                    }
                }
                v.push(self.encode(&d));
            }
            for (x, i) in free.iter().enumerate() {
                for di in 1..self.sites[*i].choices.len() as u8 {
                    let mut d = vec![0u8; n];
                    d[*i] = di;
                    v.push(self.encode(&d));
                    for j in &free[x + 1..] {
                        for dj in 1..self.sites[*j].choices.len() as u8 {
                            d[*j] = dj;
                            v.push(self.encode(&d));
                        }
                        d[*j] = 0;
                    }
                }
            }
            v.sort_unstable();
            v.dedup();
        }
        let weight = |idx: u64| self.decode(idx).iter().filter(|d| **d != 0).count() as u64;
        v.sort_by_cached_key(|i| (weight(*i), *i));
        (v, mode)
    }
    /// One alias per site, rotating over the aliases of the site's name (0 where no alias is available).
    fn designated(&self) -> Vec<u8> {
        let mut seen = vec![0usize; self.base.entities.len()];
        self.sites
            .iter()
            .map(|s| {
                let k = s.choices.len() - 1;
                if k == 0 {
                    return 0;
                }
                let o = seen[s.entity];
                seen[s.entity] += 1;
                (o % k) as u8 + 1
            })
            .collect()
    }
    fn all_alias_names(&self, kind: Kind) -> BTreeSet<&str> {
        let mut s = BTreeSet::new();
        for (e, a) in self.base.entities.iter().zip(&self.aliases) {
            if e.kind == kind {
                s.extend(a.iter().map(|x| x.as_str()));
            }
        }
        s
    }
}

#[derive(Clone, PartialEq, Eq, Debug)]
struct ApiObs {
    balance: Balances,
    txns: Vec<TxnView>,
    register: Vec<(String, QMap)>,
    by_account: Vec<(String, Vec<(String, QMap)>)>,
    range_balance: Balances,
    /// violations of the absolute register-by-account clause: (kind, detail); empty when it holds
    absolute: Vec<(&'static str, String)>,
}

/// The absolute clause: for EVERY account that occurs in `Ledger::transactions()`, `Ledger::postings` with that
/// account lists exactly the postings of that account (same count, same order, same amounts). An alias given as
/// the query argument is not judged when nothing is listed; if something is listed it must be the canonical
/// account's postings.
fn absolute_register_clause(txns: &[TxnView], aliases: &[(String, String)], query: &dyn Fn(&str) -> Vec<(String, QMap)>) -> Vec<(&'static str, String)> {
    let mut out = vec![];
    let all: Vec<(String, QMap)> = txns.iter().flat_map(|t| &t.postings).map(|p| (p.account.clone(), p.amount.clone())).collect();
    let names: BTreeSet<&String> = all.iter().map(|(a, _)| a).collect();
    let of = |name: &str| -> Vec<(String, QMap)> { all.iter().filter(|(a, _)| a == name).cloned().collect() };
    for name in names {
        let want = of(name);
        let got = query(name);
        if got.is_empty() && !want.is_empty() {
            out.push(("empty-although-account-has-postings", format!("account {:?} has {} postings in Ledger::transactions() but Ledger::postings(account = {:?}) lists none", name, want.len(), name)));
        } else if got != want {
            out.push(("differs-from-transactions", format!("account {:?}: Ledger::transactions() has {:?}\nbut Ledger::postings(account) lists {:?}", name, want, got)));
        }
    }
    for (alias, canonical) in aliases {
        let got = query(alias);
        if !got.is_empty() && got != of(canonical) {
            out.push(("alias-argument-lists-wrong-postings", format!("Ledger::postings(account = {:?}) (an alias of {:?}) lists {:?}\nbut the account's postings are {:?}", alias, canonical, got, of(canonical))));
        }
    }
    out
}

#[derive(Clone, PartialEq, Eq, Debug)]
struct Obs {
    api: Result<ApiObs, String>,
    cli: Vec<String>,
}

fn run_cli(args: &[String]) -> String {
    use clap::Parser as _;
    let cli = match okane::cmd::Cli::try_parse_from(args) {
        Ok(c) => c,
        Err(e) => panic!("harness bug: clap rejected the command line: {}", e),
    };
    let mut out: Vec<u8> = vec![];
    match cli.run(&mut out) {
        Ok(()) => format!("EXIT 0\n{}", String::from_utf8_lossy(&out)),
        Err(err) => {
            use std::error::Error;
            let mut s = format!("EXIT 1\n{}--stderr--\n{}\n", String::from_utf8_lossy(&out), err);
            let mut cur: &dyn Error = &err;
            while let Some(src) = cur.source() {
                s.push_str(&format!("Caused by {}\n", src));
                cur = src;
            }
            s
        }
    }
}

fn observe_api(c: &Compiled, text: &str) -> Result<ApiObs, String> {
    let base = c.base;
    oka::with_ledger(&[(oka::ROOT, text)], oka::ROOT, None, |r| {
        let (l, ctx) = match r {
            Ok(x) => x,
            Err(e) => return Err(format!("{}: {}", e.variant, e.rendered.lines().next().unwrap_or(""))),
        };
        let txns = oka::txn_views(l);
        let view = |ps: Vec<&okane_core::report::Posting<'_>>| -> Vec<(String, QMap)> { ps.iter().map(|p| (p.account.as_str().to_string(), oka::amount_to_qmap(&p.amount))).collect() };
        let register = view(l.postings(ctx, &PostingQuery { account: None }));
        let by_account = base.accounts.iter().map(|a| (a.to_string(), view(l.postings(ctx, &PostingQuery { account: Some(a.to_string()) })))).collect();
        let balance = match l.balance(ctx, &BalanceQuery::default()) {
            Ok(b) => oka::balance_to_map(&b),
            Err(e) => return Err(format!("balance query failed: {}", e)),
        };
        let q = BalanceQuery { conversion: None, date_range: DateRange { start: Some(oka::date(2024, 1, 2)), end: Some(oka::date(2024, 1, 5)) } };
        let range_balance = match l.balance(ctx, &q) {
            Ok(b) => oka::balance_to_map(&b),
            Err(e) => return Err(format!("range balance query failed: {}", e)),
        };
        let absolute = absolute_register_clause(&txns, &c.account_aliases, &|name: &str| view(l.postings(ctx, &PostingQuery { account: Some(name.to_string()) })));
        Ok(ApiObs { balance, txns, register, by_account, range_balance, absolute })
    })
}

fn observe(c: &Compiled, text: &str, path: &Path) -> Obs {
    let base = c.base;
    let api = observe_api(c, text);
    std::fs::write(path, text).expect("write scratch ledger");
    let pstr = path.to_string_lossy().to_string();
    let cli = base
        .commands
        .iter()
        .map(|(_, args)| {
            let mut a = vec!["okane".to_string()];
            a.extend(args.iter().map(|x| if *x == "{}" { pstr.clone() } else { x.to_string() }));
            run_cli(&a).replace(&pstr, "<file>")
        })
        .collect();
    Obs { api, cli }
}

/// "Account: amount" lines of a `balance` report as (account, commodity -> value).
fn parse_balance_report(out: &str) -> Option<Vec<(String, QMap)>> {
    let body = out.strip_prefix("EXIT 0\n")?;
    body.lines()
        .map(|l| {
            let (acc, amt) = l.rsplit_once(": ")?;
            Some((acc.to_string(), super::bk::parse_inline_amount(amt)?))
        })
        .collect()
}

/// Does the API observation mention a declared alias as an account or commodity name?
fn api_shows_alias(c: &Compiled, o: &ApiObs) -> bool {
    let acc = c.all_alias_names(Kind::Account);
    let com = c.all_alias_names(Kind::Commodity);
    let bad_map = |m: &QMap| m.keys().any(|k| com.contains(k.as_str()));
    o.balance.iter().chain(o.range_balance.iter()).any(|(a, m)| acc.contains(a.as_str()) || bad_map(m))
        || o.register.iter().any(|(a, m)| acc.contains(a.as_str()) || bad_map(m))
        || o.txns.iter().flat_map(|t| &t.postings).any(|p| p.converted.as_ref().map(|(k, _)| com.contains(k.as_str())).unwrap_or(false))
}

fn text_shows_alias(c: &Compiled, out: &str) -> bool {
    c.aliases.iter().flatten().any(|a| out.contains(a.as_str()))
}

enum Diff {
    Same,
    /// text differs, values do not: not judged
    Soft(String),
    Hard { observable: String, kind: &'static str, detail: String },
}

fn diff(c: &Compiled, canon: &Obs, got: &Obs) -> Diff {
    let ca = canon.api.as_ref().expect("canonical observation is healthy");
    match &got.api {
        Err(e) => {
            return Diff::Hard { observable: "api".into(), kind: "accepted-ledger-rejected", detail: format!("the canonical form is accepted, this spelling is rejected: {}", e) };
        }
        Ok(ga) => {
            let shows = if api_shows_alias(c, ga) { "alias-name-shown" } else { "values-differ" };
            if ga.balance != ca.balance {
                return Diff::Hard { observable: "api-balance".into(), kind: shows, detail: format!("Ledger::balance\n canonical spelling: {:?}\n this spelling:      {:?}", show_bal(&ca.balance), show_bal(&ga.balance)) };
            }
            if ga.txns != ca.txns || ga.register != ca.register {
                return Diff::Hard { observable: "api-register".into(), kind: shows, detail: format!("transactions / postings\n canonical spelling: {:?}\n this spelling:      {:?}", ca.txns, ga.txns) };
            }
            if ga.by_account != ca.by_account {
                return Diff::Hard { observable: "api-register-by-account".into(), kind: shows, detail: format!("postings of one account\n canonical spelling: {:?}\n this spelling:      {:?}", ca.by_account, ga.by_account) };
            }
            if ga.range_balance != ca.range_balance {
                return Diff::Hard { observable: "api-range-balance".into(), kind: shows, detail: format!("Ledger::balance [2024-01-02, 2024-01-05)\n canonical spelling: {:?}\n this spelling:      {:?}", show_bal(&ca.range_balance), show_bal(&ga.range_balance)) };
            }
        }
    }
    let mut soft = None;
    for (i, (label, _)) in c.base.commands.iter().enumerate() {
        let (a, b) = (&canon.cli[i], &got.cli[i]);
        if a == b {
            continue;
        }
        if label.starts_with("balance") {
            if let (Some(x), Some(y)) = (parse_balance_report(a), parse_balance_report(b)) {
                if x == y {
                    soft = Some(label.to_string());
                    continue;
                }
            }
        }
        let kind = if text_shows_alias(c, b) {
            "alias-name-shown"
        } else if a.starts_with("EXIT 0") != b.starts_with("EXIT 0") {
            "fails"
        } else {
            "values-differ"
        };
        return Diff::Hard { observable: format!("cli:{}", label), kind, detail: format!("okane {}\n--- canonical spelling ---\n{}\n--- this spelling ---\n{}", c.base.commands[i].1.join(" ").replace("{}", "<file>"), a, b) };
    }
    match soft {
        Some(l) => Diff::Soft(l),
        None => Diff::Same,
    }
}

fn show_bal(b: &Balances) -> Vec<String> {
    b.iter().map(|(a, m)| format!("{}: {}", a, qmap_show(m))).collect()
}

fn site_label(c: &Compiled, site: usize, digit: u8) -> String {
    let s = &c.sites[site];
    format!("{}={}@{}", c.base.entities[s.entity].canonical, s.choices[digit as usize].replace(' ', "_"), s.pos)
}

fn alias_shape(alias: &str) -> &'static str {
    if alias.contains(' ') {
        "with-space"
    } else if !alias.chars().any(|ch| ch.is_alphanumeric()) {
        "symbol"
    } else {
        "word"
    }
}

fn kind_name(k: Kind) -> &'static str {
    match k {
        Kind::Account => "account",
        Kind::Commodity => "commodity",
    }
}

/// Does the substitution of this one site alone break transparency? (`compute` runs it; cached per worker)
fn single_fails(c: &Compiled, site: usize, digit: u8, compute: &dyn Fn(&[u8]) -> bool) -> bool {
    if let Some(b) = c.single_cache.borrow().get(&(site, digit)) {
        return *b;
    }
    let mut single = vec![0u8; c.sites.len()];
    single[site] = digit;
    let b = compute(&single);
    c.single_cache.borrow_mut().insert((site, digit), b);
    b
}

/// Label of the smallest culprit of a violating assignment, as general as the evidence allows:
/// `<kind>-alias@any-position` if every single substitution of that kind of name fails in this base ledger,
/// `<kind>-alias(<shape>)@any-position` if every single substitution by an alias of that shape fails,
/// otherwise `<kind>-alias(<shape>)@<position>`. `fails(assignment)` runs one assignment and tells whether it differs.
fn culprit_label(c: &Compiled, digits: &[u8], fails: &dyn Fn(&[u8]) -> bool) -> String {
    let first = digits.iter().enumerate().filter(|(_, d)| **d != 0).find(|(i, d)| single_fails(c, *i, **d, fails));
    let (i, d) = match first {
        Some((i, d)) => (i, *d),
        None => return format!("only-in-combination-of-{}-sites", digits.iter().filter(|d| **d != 0).count()),
    };
    let kind = c.base.entities[c.sites[i].entity].kind;
    let shape = alias_shape(&c.sites[i].choices[d as usize]);
    let mut all_of_kind = true;
    let mut all_of_shape = true;
    for (j, s) in c.sites.iter().enumerate() {
        if c.base.entities[s.entity].kind != kind {
            continue;
        }
        for e in 1..s.choices.len() as u8 {
            if !single_fails(c, j, e, fails) {
                all_of_kind = false;
                if alias_shape(&s.choices[e as usize]) == shape {
                    all_of_shape = false;
                }
            }
        }
    }
    if all_of_kind {
        format!("{}-alias@any-position", kind_name(kind))
    } else if all_of_shape {
        format!("{}-alias({})@any-position", kind_name(kind), shape)
    } else {
        format!("{}-alias({})@{}", kind_name(kind), shape, c.sites[i].pos)
    }
}

fn describe_a(c: &Compiled, digits: &[u8]) -> String {
    let subs: Vec<String> = digits.iter().enumerate().filter(|(_, d)| **d != 0).map(|(i, d)| site_label(c, i, *d)).collect();
    let cmds: Vec<String> = c.base.commands.iter().map(|(_, a)| format!("okane {}", a.join(" ").replace("{}", "<file>"))).collect();
    format!("[part A, {}] substitutions: {}\ncompared with the all-canonical spelling through the API and: {}\n--- ledger ---\n{}", c.base.name, if subs.is_empty() { "none (canonical form)".to_string() } else { subs.join(", ") }, cmds.join(" | "), c.render(digits))
}

fn judge_a(c: &Compiled, canon: &Result<Obs, String>, digits: &[u8], path: &Path) -> Outcome {
    let canon = match canon {
        Ok(o) => o,
        Err(why) => return Outcome::violation(format!("transparency/{}/canonical-form-unhealthy", c.base.name), why.clone()),
    };
    let got = observe(c, &c.render(digits), path);
    if let Some(o) = absolute_violation(c.base, got.api.as_ref().ok().map(|a| &a.absolute)) {
        return o;
    }
    let w = digits.iter().filter(|d| **d != 0).count();
    let kinds: BTreeSet<&str> = digits.iter().enumerate().filter(|(_, d)| **d != 0).map(|(i, _)| if c.base.entities[c.sites[i].entity].kind == Kind::Account { "account" } else { "commodity" }).collect();
    match diff(c, canon, &got) {
        Diff::Same => Outcome::pass(format!("transparent/{}/{}-sites-substituted/{}", c.base.name, match w {
            1 => "1",
            2 => "2",
            3..=5 => "3-5",
            _ => "6+",
        }, if w >= 3 { "any".to_string() } else { kinds.into_iter().collect::<Vec<_>>().join("+") })),
        Diff::Soft(label) => Outcome::dont_care(format!("text-differs-values-equal/{}/{}", c.base.name, label)),
        Diff::Hard { observable, kind, detail } => {
            let culprit = culprit_label(c, digits, &|dg: &[u8]| !matches!(diff(c, canon, &observe(c, &c.render(dg), path)), Diff::Same | Diff::Soft(_)));
            let what = if observable.starts_with("cli:") { format!("{}-{}", observable.replace(':', "-"), kind) } else { kind.to_string() };
            Outcome::violation(format!("transparency/{}/{}", what, culprit), format!("base ledger {}, first differing observable: {}\n{}", c.base.name, observable, detail))
        }
    }
}

/// Violation of the absolute register-by-account clause, if any.
fn absolute_violation(base: &Base, absolute: Option<&Vec<(&'static str, String)>>) -> Option<Outcome> {
    let (kind, detail) = absolute?.first()?;
    Some(Outcome::violation(format!("register-by-account/{}/api", kind), format!("base ledger {}\n{}", base.name, detail)))
}

/// The all-canonical run of a base ledger; must be accepted, succeed in every command, show no alias and
/// match the pinned report.
fn canonical_obs(c: &Compiled, path: &Path) -> Result<Obs, String> {
    let digits = vec![0u8; c.sites.len()];
    let text = c.render(&digits);
    let o = match fw::guarded(|| observe(c, &text, path)) {
        Ok(o) => o,
        Err(p) => return Err(format!("panic while processing the canonical form: {}", p)),
    };
    match &o.api {
        Err(e) => return Err(format!("the canonical form of the base ledger is rejected: {}", e)),
        Ok(a) => {
            if api_shows_alias(c, a) {
                return Err("the canonical form of the base ledger (aliases declared, never written) reports an alias name".into());
            }
        }
    }
    for (i, (label, _)) in c.base.commands.iter().enumerate() {
        if !o.cli[i].starts_with("EXIT 0\n") {
            return Err(format!("`okane {}` fails on the canonical form:\n{}", label, o.cli[i]));
        }
        if text_shows_alias(c, &o.cli[i]) {
            return Err(format!("`okane {}` on the canonical form prints an alias:\n{}", label, o.cli[i]));
        }
    }
    let want = format!("EXIT 0\n{}", c.base.expected_balance);
    if o.cli[0] != want {
        let same_values = parse_balance_report(&o.cli[0]).is_some() && parse_balance_report(&o.cli[0]) == parse_balance_report(&want);
        if !same_values {
            return Err(format!("`okane balance` on the canonical form differs from the hand-checked report\n--- expected ---\n{}\n--- observed ---\n{}", want, o.cli[0]));
        }
    }
    Ok(o)
}

fn part_a(ctx: &mut Ctx, path: &Path) -> u64 {
    let mut ledgers = 0u64;
    for base in [&L1, &L2, &L3, &L4] {
        let c = compile(base);
        let (assignments, mode) = c.assignments(ctx.tier);
        let canon = canonical_obs(&c, path);
        ctx.fact(&format!("A_{}_sites", base.name), c.sites.len() as u64);
        ctx.fact(&format!("A_{}_site_arities", base.name), c.sites.iter().map(|s| s.choices.len().to_string()).collect::<Vec<_>>().join(","));
        ctx.fact(&format!("A_{}_full_assignments", base.name), c.full_count());
        ctx.fact(&format!("A_{}_substitutions_explored", base.name), assignments.len() as u64);
        ctx.fact(&format!("A_{}_mode", base.name), mode);
        ledgers += assignments.len() as u64 + 1;
        // the canonical form itself, against the pinned report
        let zero = vec![0u8; c.sites.len()];
        ctx.case(
            || describe_a(&c, &zero),
            || match &canon {
                Ok(o) => absolute_violation(base, o.api.as_ref().ok().map(|a| &a.absolute)).unwrap_or_else(|| Outcome::pass(format!("canonical-form-as-pinned/{}", base.name))),
                Err(why) => Outcome::violation(format!("transparency/{}/canonical-form-unhealthy", base.name), why.clone()),
            },
        );
        for idx in assignments {
            if !ctx.next_is_mine() {
                ctx.skip_cases(1);
                continue;
            }
            let digits = c.decode(idx);
            ctx.case(|| describe_a(&c, &digits), || judge_a(&c, &canon, &digits, path));
        }
        // Not judged (the statement names the balance and register reports): `okane accounts` for every
        // single account-site substitution; the observed behaviour is recorded in the outcome classes.
        for (i, site) in c.sites.iter().enumerate() {
            if base.entities[site.entity].kind != Kind::Account {
                continue;
            }
            for d in 1..site.choices.len() as u8 {
                let mut digits = vec![0u8; c.sites.len()];
                digits[i] = d;
                ctx.case(
                    || format!("[part A, {}, NOT JUDGED] okane accounts <file> with substitution {}\n--- ledger ---\n{}", base.name, site_label(&c, i, d), c.render(&digits)),
                    || {
                        let pstr = path.to_string_lossy().to_string();
                        let run = |dg: &[u8]| {
                            std::fs::write(path, c.render(dg)).expect("write scratch ledger");
                            run_cli(&["okane".to_string(), "accounts".to_string(), pstr.clone()])
                        };
                        let canon_out = run(&vec![0u8; c.sites.len()]);
                        let out = run(&digits);
                        let what = if out == canon_out {
                            "same-as-canonical-spelling"
                        } else if out.lines().any(|l| c.all_alias_names(Kind::Account).contains(l)) {
                            "lists-the-alias-as-an-account"
                        } else {
                            "differs"
                        };
                        Outcome::dont_care(format!("not-judged/okane-accounts/{}", what))
                    },
                );
            }
        }
    }
    ledgers
}

// =================================================================================================
// Part C — transparency of a price database (`--price-db`, ProcessOptions::price_db_path)
// =================================================================================================
//
// The price DB is read after the whole ledger, i.e. after every declaration: a `P` line may spell a declared
// commodity by any of its aliases, on the target side and on the rate side. For the base ledgers that declare
// commodities (L2, L3) every assignment canonical/alias1/alias2 to every mention site of the DB file is explored,
// once with the all-canonical ledger and once with the ledger written through aliases at every site.

#[derive(Clone, PartialEq, Eq, Debug)]
struct DbApi {
    balance: Balances,
    txns: Vec<TxnView>,
    /// Ledger::balance converted up-to-date (2024-02-01) to USD / JPY
    converted: Vec<(String, Result<Balances, String>)>,
    absolute: Vec<(&'static str, String)>,
}

#[derive(Clone, PartialEq, Eq, Debug)]
struct DbObs {
    api: Result<DbApi, String>,
    cli: Vec<String>,
}

fn observe_db(c: &Compiled, db: &PriceDb, ledger_text: &str, db_text: &str, lpath: &Path, dpath: &Path) -> DbObs {
    use okane_core::report::query::{Conversion, ConversionStrategy};
    std::fs::write(lpath, ledger_text).expect("write scratch ledger");
    std::fs::write(dpath, db_text).expect("write scratch price db");
    let api = oka::with_ledger(&[(oka::ROOT, ledger_text)], oka::ROOT, Some(dpath), |r| {
        let (l, ctx) = match r {
            Ok(x) => x,
            Err(e) => return Err(format!("{}: {}", e.variant, e.rendered.lines().next().unwrap_or(""))),
        };
        let txns = oka::txn_views(l);
        let balance = match l.balance(ctx, &BalanceQuery::default()) {
            Ok(b) => oka::balance_to_map(&b),
            Err(e) => return Err(format!("balance query failed: {}", e)),
        };
        let mut converted = vec![];
        for t in ["USD", "JPY"] {
            let r = match ctx.commodity(t) {
                None => Err(format!("commodity {} not found", t)),
                Some(target) => {
                    let q = BalanceQuery { conversion: Some(Conversion { strategy: ConversionStrategy::UpToDate { now: oka::date(2024, 2, 1) }, target }), date_range: DateRange::default() };
                    match l.balance(ctx, &q) {
                        Ok(b) => Ok(oka::balance_to_map(&b)),
                        Err(e) => Err(e.to_string()),
                    }
                }
            };
            converted.push((t.to_string(), r));
        }
        let absolute = absolute_register_clause(&txns, &c.account_aliases, &|name: &str| l.postings(ctx, &PostingQuery { account: Some(name.to_string()) }).iter().map(|p| (p.account.as_str().to_string(), oka::amount_to_qmap(&p.amount))).collect());
        Ok(DbApi { balance, txns, converted, absolute })
    });
    let (lp, dp) = (lpath.to_string_lossy().to_string(), dpath.to_string_lossy().to_string());
    let cli = db
        .commands
        .iter()
        .map(|(_, args)| {
            let mut a = vec!["okane".to_string()];
            a.extend(args.iter().map(|x| match *x {
                "{}" => lp.clone(),
                "{db}" => dp.clone(),
                o => o.to_string(),
            }));
            run_cli(&a).replace(&lp, "<file>").replace(&dp, "<price-db>")
        })
        .collect();
    DbObs { api, cli }
}

fn db_api_shows_alias(c: &Compiled, a: &DbApi) -> bool {
    let com = c.all_alias_names(Kind::Commodity);
    let acc = c.all_alias_names(Kind::Account);
    let bad = |b: &Balances| b.iter().any(|(n, m)| acc.contains(n.as_str()) || m.keys().any(|k| com.contains(k.as_str())));
    bad(&a.balance) || a.converted.iter().any(|(_, r)| r.as_ref().map(bad).unwrap_or(false))
}

/// (observable, kind, detail) of the first hard difference; text-only differences of balance reports are ignored.
fn diff_db(c: &Compiled, db: &PriceDb, canon: &DbObs, got: &DbObs) -> Option<(String, &'static str, String)> {
    let ca = canon.api.as_ref().expect("canonical observation is healthy");
    match &got.api {
        Err(e) => return Some(("api".into(), "accepted-ledger-rejected", format!("with the price DB in canonical names the ledger is accepted; with this spelling it is rejected: {}", e))),
        Ok(ga) => {
            let shows = if db_api_shows_alias(c, ga) { "alias-name-shown" } else { "values-differ" };
            if ga.balance != ca.balance || ga.txns != ca.txns {
                return Some(("api-balance".into(), shows, format!("Ledger::balance / transactions\n canonical spelling: {:?}\n this spelling:      {:?}", show_bal(&ca.balance), show_bal(&ga.balance))));
            }
            if ga.converted != ca.converted {
                let show = |v: &Vec<(String, Result<Balances, String>)>| v.iter().map(|(t, r)| format!("-X {}: {:?}", t, r.as_ref().map(show_bal))).collect::<Vec<_>>();
                return Some(("api-balance-converted".into(), shows, format!("Ledger::balance with up-to-date conversion\n canonical spelling: {:?}\n this spelling:      {:?}", show(&ca.converted), show(&ga.converted))));
            }
        }
    }
    for (i, (label, args)) in db.commands.iter().enumerate() {
        let (a, b) = (&canon.cli[i], &got.cli[i]);
        if a == b {
            continue;
        }
        if label.starts_with("balance") {
            if let (Some(x), Some(y)) = (parse_balance_report(a), parse_balance_report(b)) {
                if x == y {
                    continue;
                }
            }
        }
        let kind = if text_shows_alias(c, b) {
            "alias-name-shown"
        } else if a.starts_with("EXIT 0") != b.starts_with("EXIT 0") {
            "fails"
        } else {
            "values-differ"
        };
        return Some((format!("cli:{}", label), kind, format!("okane {}\n--- canonical spelling ---\n{}\n--- this spelling ---\n{}", args.join(" ").replace("{}", "<file>").replace("{db}", "<price-db>"), a, b)));
    }
    None
}

fn canonical_db_obs(c: &Compiled, db: &PriceDb, d: &Compiled, lpath: &Path, dpath: &Path) -> Result<DbObs, String> {
    let ledger = c.render(&vec![0u8; c.sites.len()]);
    let dbt = d.render(&vec![0u8; d.sites.len()]);
    let o = match fw::guarded(|| observe_db(c, db, &ledger, &dbt, lpath, dpath)) {
        Ok(o) => o,
        Err(p) => return Err(format!("panic while processing the canonical ledger with the canonical price DB: {}", p)),
    };
    match &o.api {
        Err(e) => return Err(format!("the canonical ledger with the canonical price DB is rejected: {}", e)),
        Ok(a) => {
            if db_api_shows_alias(c, a) {
                return Err("the canonical ledger with the canonical price DB reports an alias name".into());
            }
            for (t, r) in &a.converted {
                if let Err(e) = r {
                    return Err(format!("conversion to {} fails with the canonical price DB: {}", t, e));
                }
            }
        }
    }
    for (i, (label, _)) in db.commands.iter().enumerate() {
        if !o.cli[i].starts_with("EXIT 0\n") {
            return Err(format!("`okane {}` fails with the canonical price DB:\n{}", label, o.cli[i]));
        }
        if text_shows_alias(c, &o.cli[i]) {
            return Err(format!("`okane {}` with the canonical price DB prints an alias:\n{}", label, o.cli[i]));
        }
    }
    let want = format!("EXIT 0\n{}", db.expected_x_usd);
    if o.cli[2] != want && !(parse_balance_report(&o.cli[2]).is_some() && parse_balance_report(&o.cli[2]) == parse_balance_report(&want)) {
        return Err(format!("`okane balance -X USD --price-db` on the canonical form differs from the hand-checked report\n--- expected ---\n{}\n--- observed ---\n{}", want, o.cli[2]));
    }
    Ok(o)
}

fn part_c(ctx: &mut Ctx, lpath: &Path, dpath: &Path) -> u64 {
    let mut states = 0u64;
    for base in [&L2, &L3] {
        let db = base.price_db.expect("harness bug: base ledger without price DB");
        let c = compile(base);
        let spellings: [(&str, Vec<u8>); 2] = [("ledger-in-canonical-names", vec![0u8; c.sites.len()]), ("ledger-through-aliases", c.designated())];
        let d0 = compile_text(base, db.template, Some(&c.aliases));
        let canon = canonical_db_obs(&c, db, &d0, lpath, dpath);
        let full = d0.full_count();
        ctx.fact(&format!("C_{}_db_sites", base.name), d0.sites.len() as u64);
        ctx.fact(&format!("C_{}_db_site_arities", base.name), d0.sites.iter().map(|s| s.choices.len().to_string()).collect::<Vec<_>>().join(","));
        ctx.fact(&format!("C_{}_db_assignments", base.name), full);
        ctx.case(
            || format!("[part C, {}] canonical ledger with the price DB in canonical names, against the pinned `balance -X USD` report\n--- price DB ---\n{}--- ledger ---\n{}", base.name, d0.render(&vec![0u8; d0.sites.len()]), c.render(&spellings[0].1)),
            || match &canon {
                Ok(o) => absolute_violation(base, o.api.as_ref().ok().map(|a| &a.absolute)).unwrap_or_else(|| Outcome::pass(format!("price-db/canonical-form-as-pinned/{}", base.name))),
                Err(why) => Outcome::violation(format!("transparency/price-db/{}/canonical-form-unhealthy", base.name), why.clone()),
            },
        );
        states += 1;
        for (si, (sname, ldigits)) in spellings.iter().enumerate() {
            // one cache of single-site results per ledger spelling
            let d = compile_text(base, db.template, Some(&c.aliases));
            let ledger = c.render(ldigits);
            let mut order: Vec<u64> = (if si == 0 { 1 } else { 0 }..full).collect();
            let weight = |idx: u64| d.decode(idx).iter().filter(|x| **x != 0).count() as u64;
            order.sort_by_cached_key(|i| (weight(*i), *i));
            states += order.len() as u64;
            for idx in order {
                if !ctx.next_is_mine() {
                    ctx.skip_cases(1);
                    continue;
                }
                let digits = d.decode(idx);
                ctx.case(
                    || {
                        let subs: Vec<String> = digits.iter().enumerate().filter(|(_, x)| **x != 0).map(|(i, x)| site_label(&d, i, *x)).collect();
                        format!(
                            "[part C, {}, {}] price-DB substitutions: {}\ncompared with canonical ledger + canonical price DB through ProcessOptions{{price_db_path}} and: {}\n--- price DB ---\n{}--- ledger ---\n{}",
                            base.name,
                            sname,
                            if subs.is_empty() { "none".to_string() } else { subs.join(", ") },
                            db.commands.iter().map(|(_, a)| format!("okane {}", a.join(" ").replace("{}", "<file>").replace("{db}", "<price-db>"))).collect::<Vec<_>>().join(" | "),
                            d.render(&digits),
                            ledger
                        )
                    },
                    || {
                        let canon = match &canon {
                            Ok(o) => o,
                            Err(why) => return Outcome::violation(format!("transparency/price-db/{}/canonical-form-unhealthy", base.name), why.clone()),
                        };
                        let got = observe_db(&c, db, &ledger, &d.render(&digits), lpath, dpath);
                        if let Some(o) = absolute_violation(base, got.api.as_ref().ok().map(|a| &a.absolute)) {
                            return o;
                        }
                        let w = digits.iter().filter(|x| **x != 0).count();
                        match diff_db(&c, db, canon, &got) {
                            None => Outcome::pass(format!("transparent-price-db/{}/{}/{}-db-sites-substituted", base.name, sname, if w <= 2 { "0-2" } else { "3+" })),
                            Some((observable, kind, detail)) => {
                                let culprit = if w == 0 { "ledger-aliases-only".to_string() } else { culprit_label(&d, &digits, &|dg: &[u8]| diff_db(&c, db, canon, &observe_db(&c, db, &ledger, &d.render(dg), lpath, dpath)).is_some()) };
                                let what = if observable.starts_with("cli:") { format!("{}-{}", observable.replace(':', "-"), kind) } else { kind.to_string() };
                                Outcome::violation(format!("transparency/price-db/{}/{}", what, culprit.replace("commodity-alias", "db-commodity-alias")), format!("base ledger {} ({}), first differing observable: {}\n{}", base.name, sname, observable, detail))
                            }
                        }
                    },
                );
            }
        }
        // Not judged: a price DB that only names commodities the ledger never mentions (the statement is about declared names).
        ctx.case(
            || format!("[part C, {}, NOT JUDGED] price DB naming only commodities the ledger never mentions\n--- price DB ---\nP 2024/01/31 XAU 2,000.00 CHF\n--- ledger ---\n{}", base.name, c.render(&spellings[0].1)),
            || {
                let o = observe_db(&c, db, &c.render(&spellings[0].1), "P 2024/01/31 XAU 2,000.00 CHF\n", lpath, dpath);
                Outcome::dont_care(format!("not-judged/price-db-with-undeclared-commodities/{}", if o.api.is_ok() { "accepted" } else { "rejected" }))
            },
        );
    }
    states
}

// =================================================================================================
// Part D — `register FILE <account>` / Ledger::postings(account) is complete, under every map order
// =================================================================================================
//
// ABSOLUTE clause (not relative to the canonical run, which declares the same aliases): for every account that
// occurs, the register restricted to that account lists exactly that account's postings of the unrestricted
// register. Checked through the API in every case of parts A and C under the default (insertion) order of okane's
// internal maps, and here, for the canonical form and every single account-site substitution of every base ledger,
// through API and CLI under EVERY execution with at most d non-default iteration orders of the maps behind the
// verif hook (the account table is such a map; d = 1 quick, 2 thorough).

/// Split the first inline amount ("0", "12 USD", "(1 A + 2 B)") off the rest of a register line.
fn split_first_amount(rest: &str) -> Option<(&str, &str)> {
    if rest.starts_with('(') {
        let e = rest.find(')')?;
        return Some((&rest[..=e], rest[e + 1..].trim_start()));
    }
    let numeric = |t: &str| !t.is_empty() && t.chars().all(|ch| ch.is_ascii_digit() || matches!(ch, '-' | '.' | ','));
    let (t1, after) = rest.split_once(' ').unwrap_or((rest, ""));
    if !numeric(t1) {
        return None;
    }
    let t2 = after.split(' ').next().unwrap_or("");
    if t1 == "0" && (t2.is_empty() || t2.starts_with('(') || numeric(t2)) {
        return Some((t1, after));
    }
    let end = t1.len() + 1 + t2.len();
    Some((&rest[..end], rest[end..].trim_start()))
}

/// The same clause on the CLI: `okane register FILE <account>` has one line per line of `okane register FILE` that
/// belongs to the account, with the same amounts (the running totals necessarily differ).
fn cli_register_clause(names: &BTreeSet<String>, path: &Path) -> Vec<(&'static str, String)> {
    let pstr = path.to_string_lossy().to_string();
    let full = run_cli(&["okane".to_string(), "register".to_string(), pstr.clone()]);
    let Some(full_body) = full.strip_prefix("EXIT 0\n") else {
        return vec![("register-command-fails", full.replace(&pstr, "<file>"))];
    };
    let mut out = vec![];
    for name in names {
        let prefix = format!("{} ", name);
        let want: Vec<&str> = full_body.lines().filter_map(|l| l.strip_prefix(prefix.as_str())).collect();
        let got_out = run_cli(&["okane".to_string(), "register".to_string(), pstr.clone(), name.clone()]);
        let Some(got_body) = got_out.strip_prefix("EXIT 0\n") else {
            out.push(("register-command-fails", format!("okane register <file> {:?}:\n{}", name, got_out.replace(&pstr, "<file>"))));
            continue;
        };
        let got: Vec<&str> = got_body.lines().map(|l| l.strip_prefix(prefix.as_str()).unwrap_or(l)).collect();
        if got.is_empty() && !want.is_empty() {
            out.push(("empty-although-account-has-postings", format!("`okane register <file>` has {} lines for account {:?} but `okane register <file> {:?}` prints nothing", want.len(), name, name)));
            continue;
        }
        let amounts = |v: &[&str]| -> Option<Vec<String>> { v.iter().map(|r| split_first_amount(r).map(|x| x.0.to_string())).collect() };
        let differs = match (amounts(&want), amounts(&got)) {
            (Some(a), Some(b)) => a != b,
            _ => want.len() != got.len(),
        };
        if differs {
            out.push(("differs-from-transactions", format!("account {:?}: lines of `okane register <file>`: {:?}\nlines of `okane register <file> {:?}`: {:?}", name, want, name, got)));
        }
    }
    out
}

/// One execution: "" when the clause holds through API and CLI, else "<kind>|<api|cli>|<detail>".
fn absolute_report(c: &Compiled, text: &str, path: &Path) -> String {
    let api = match observe_api(c, text) {
        Ok(a) => a,
        Err(e) => return format!("ledger-rejected|api|{}", e),
    };
    if let Some((k, d)) = api.absolute.first() {
        return format!("{}|api|{}", k, d);
    }
    std::fs::write(path, text).expect("write scratch ledger");
    let names: BTreeSet<String> = api.txns.iter().flat_map(|t| &t.postings).map(|p| p.account.clone()).collect();
    match cli_register_clause(&names, path).first() {
        Some((k, d)) => format!("{}|cli|{}", k, d),
        None => String::new(),
    }
}

fn part_d(ctx: &mut Ctx, path: &Path) -> u64 {
    let bound = ctx.tier.pick(1usize, 2usize);
    ctx.fact("D_map_order_deviation_bound", bound as u64);
    let mut forms = 0u64;
    for base in [&L1, &L2, &L3, &L4] {
        let c = compile(base);
        let mut list: Vec<Vec<u8>> = vec![vec![0u8; c.sites.len()]];
        for (i, site) in c.sites.iter().enumerate() {
            if base.entities[site.entity].kind == Kind::Account {
                for d in 1..site.choices.len() as u8 {
                    let mut digits = vec![0u8; c.sites.len()];
                    digits[i] = d;
                    list.push(digits);
                }
            }
        }
        forms += list.len() as u64;
        for digits in list {
            if !ctx.next_is_mine() {
                ctx.skip_cases(1);
                continue;
            }
            let text = c.render(&digits);
            let tick_ctx: *const Ctx = ctx;
            let tick = move || unsafe { (*tick_ctx).tick() };
            let mut execs = 0u64;
            ctx.case(
                || {
                    let subs: Vec<String> = digits.iter().enumerate().filter(|(_, x)| **x != 0).map(|(i, x)| site_label(&c, i, *x)).collect();
                    format!(
                        "[part D, {}] substitution: {}\nfor every account of the ledger: Ledger::postings(account) and `okane register <file> <account>` list exactly that account's postings of the unrestricted register; every execution with <= {} non-default map iteration orders\n--- ledger ---\n{}",
                        base.name,
                        if subs.is_empty() { "none (canonical form)".to_string() } else { subs.join(", ") },
                        bound,
                        text
                    )
                },
                || {
                    let f = || absolute_report(&c, &text, path);
                    let default_run = f();
                    let ex = super::c13::explore(bound, &f, &tick);
                    execs = ex.executions + 1;
                    let bad = if !default_run.is_empty() { Some((default_run.clone(), "default-map-order".to_string())) } else { ex.outcomes.iter().find(|o| !o.is_empty()).map(|o| (o.clone(), format!("non-default-map-order (choice vector {:?})", ex.witness.as_ref().map(|w| w.0.clone())))) };
                    match bad {
                        None => Outcome::pass(format!("register-by-account-complete/{}/all-map-orders-with-{}-deviations", if digits.iter().all(|x| *x == 0) { "canonical-form" } else { "one-account-alias-written" }, bound)),
                        Some((report, order)) => {
                            let mut it = report.splitn(3, '|');
                            let (kind, via, detail) = (it.next().unwrap_or("?"), it.next().unwrap_or("?"), it.next().unwrap_or(""));
                            Outcome::violation(format!("register-by-account/{}/{}", kind, via), format!("base ledger {}, {}\n{}", base.name, order, detail))
                        }
                    }
                },
            );
            ctx.count("D_map_order_executions", execs);
        }
        // Not judged: an alias as the ACCOUNT argument of the register query (the statement speaks of aliases written in the ledger).
        if !c.account_aliases.is_empty() {
            ctx.case(
                || format!("[part D, {}, NOT JUDGED] Ledger::postings(account = <alias>) for the aliases {:?}\n--- ledger ---\n{}", base.name, c.account_aliases, c.render(&vec![0u8; c.sites.len()])),
                || {
                    let text = c.render(&c.designated());
                    let listed = oka::with_ledger(&[(oka::ROOT, text.as_str())], oka::ROOT, None, |r| match r {
                        Ok((l, ctx)) => c.account_aliases.iter().map(|(a, _)| l.postings(ctx, &PostingQuery { account: Some(a.clone()) }).len()).sum::<usize>(),
                        Err(_) => 0,
                    });
                    Outcome::dont_care(format!("not-judged/register-with-alias-as-argument/{}", if listed == 0 { "lists-nothing" } else { "lists-postings" }))
                },
            );
        }
    }
    ctx.fact("D_forms", forms);
    forms
}

// =================================================================================================
// Part E — value classes of names, blanks after directive arguments, placement of the directive
// =================================================================================================
//
// E1/E2: alias and canonical names over EVERY printable ASCII punctuation character, digits, inner single blanks and
// non-ASCII characters, in every position of the name (inner / leading / trailing / after a blank / before a blank /
// a word of its own; all ordered pairs of characters). A name is judged (MUST) when it is legal by doc/syntax.md
// (account ::= no-sp (no-sp | " " no-sp)*; commodity ::= one or more characters outside the documented exclusion set)
// AND a control ledger without any declaration shows that a posting can be written with exactly this name; otherwise
// DON'T-CARE (e.g. `;` starts a comment, a leading `*` or `!` is the cleared flag). Oracle (absolute): with
// `account T` + `alias N`, a posting written N is booked on T and nothing else appears; with `account N` +
// `alias z`, a posting written z is reported under exactly N.
// E3: blanks after the directive arguments and between keyword and argument. E4: the directive before / after the
// first use of the canonical name, in an included file, repeated with another alias.

const ASCII_PUNCT: &str = "!\"#$%&'()*+,-./:;<=>?@[\\]^_`{|}~";
const EXTRA_CHARS: &[char] = &['0', '7', '\u{e9}', '\u{5186}', '\u{fc}', '\u{a0}', '\u{3000}'];
const DOC_NON_COMMODITY: &str = "- \t\r\n0123456789.,;:?!+*/^&|=<>[](){}@";

fn name_chars() -> Vec<char> {
    ASCII_PUNCT.chars().chain(EXTRA_CHARS.iter().copied()).collect()
}

fn char_category(c: char) -> &'static str {
    match c {
        ';' | '#' | '%' | '|' | '*' => "comment-prefix-char",
        '(' | ')' | '[' | ']' | '{' | '}' | '<' | '>' => "bracket-char",
        '\'' | '"' | '`' => "quote-char",
        '0'..='9' => "digit",
        ' ' => "inner-blank",
        c if c.is_whitespace() => "unicode-blank",
        c if !c.is_ascii() => "non-ascii-char",
        c if c.is_ascii_alphabetic() => "letter",
        _ => "other-punctuation",
    }
}

/// The most specific category among the non-letter characters of a name (for signatures and classes).
fn name_category(name: &str) -> &'static str {
    let order = ["comment-prefix-char", "unicode-blank", "bracket-char", "quote-char", "other-punctuation", "non-ascii-char", "digit", "inner-blank", "letter"];
    let cats: BTreeSet<&str> = name.chars().map(char_category).collect();
    order.iter().find(|o| cats.contains(*o)).copied().unwrap_or("letter")
}

fn doc_legal(kind: Kind, name: &str) -> bool {
    let edge_blank = name.chars().next().map(|c| c.is_whitespace()).unwrap_or(true) || name.chars().last().map(|c| c.is_whitespace()).unwrap_or(true);
    match kind {
        Kind::Account => !edge_blank && !name.contains("  ") && !name.contains(['\t', '\r', '\n']),
        Kind::Commodity => !name.is_empty() && !edge_blank && !name.chars().any(|c| DOC_NON_COMMODITY.contains(c)),
    }
}

/// (label of the shape, name) for one varying character / pair of characters.
fn account_names() -> Vec<(&'static str, String)> {
    let mut v: Vec<(&'static str, String)> = vec![];
    for n in ["Visa *1234", "Bus #5", "Apt #12", "R&D|Ops", "50% share", "Assets:Bank (JPY)", "\u{8cc7}\u{7523}:\u{9280}\u{884c}", "Caf\u{e9} cr\u{e8}me", "a.b-c_d/e", "x=y", "card@home", "[virtual]", "(paren)", "1st Street 22", "Q&A", "C++", "what?", "~tilde", "back\\slash", "it's", "\"quoted\" name"] {
        v.push(("realistic", n.to_string()));
    }
    let cs = name_chars();
    for c in &cs {
        v.push(("inner", format!("a{}b", c)));
        v.push(("leading", format!("{}ab", c)));
        v.push(("trailing", format!("ab{}", c)));
        v.push(("after-blank", format!("a {}b", c)));
        v.push(("before-blank", format!("a{} b", c)));
        v.push(("own-word", format!("a {} b", c)));
    }
    for c1 in &cs {
        for c2 in &cs {
            v.push(("pair", format!("a{}{}b", c1, c2)));
            v.push(("pair-around-blank", format!("a{} {}b", c1, c2)));
        }
    }
    v
}

fn commodity_names() -> Vec<(&'static str, String)> {
    let mut v: Vec<(&'static str, String)> = vec![];
    for n in ["$", "US$", "\u{a5}", "\u{5186}", "\u{7c73}\u{30c9}\u{30eb}", "\u{20ac}", "\u{a3}", "dollar", "A_B", "%", "#", "B'", "\u{5143}"] {
        v.push(("realistic", n.to_string()));
    }
    let cs = name_chars();
    for c in &cs {
        v.push(("alone", c.to_string()));
        v.push(("inner", format!("a{}b", c)));
        v.push(("leading", format!("{}a", c)));
        v.push(("trailing", format!("a{}", c)));
    }
    for c1 in &cs {
        for c2 in &cs {
            v.push(("pair", format!("{}{}", c1, c2)));
        }
    }
    v
}

fn run_files(files: &[(&str, &str)]) -> Result<Balances, String> {
    oka::with_ledger(files, oka::ROOT, None, |r| match r {
        Ok((l, ctx)) => match l.balance(ctx, &BalanceQuery::default()) {
            Ok(b) => Ok(oka::clean_balances(&oka::balance_to_map(&b))),
            Err(e) => Err(format!("balance query failed: {}", e)),
        },
        Err(e) => Err(format!("{}: {}", e.variant, e.rendered.lines().next().unwrap_or(""))),
    })
}

fn run_one(text: &str) -> Result<Balances, String> {
    run_files(&[(oka::ROOT, text)])
}

/// Posting of amount `v` written with the given account / commodity name.
fn use_of(kind: Kind, name: &str, v: i128) -> String {
    match kind {
        Kind::Account => format!("2024/01/01 use\n  {}  {} X\n  E\n\n", name, v),
        Kind::Commodity => format!("2024/01/01 use\n  A  {} {}\n  E\n\n", v, name),
    }
}

/// Expected balances when everything written so far sits under `canonical`.
fn expect_under(kind: Kind, canonical: &str, total: i128) -> Balances {
    let mut b = Balances::new();
    match kind {
        Kind::Account => {
            qmap_add(b.entry(canonical.to_string()).or_default(), "X", Q::int(total));
            qmap_add(b.entry("E".to_string()).or_default(), "X", Q::int(-total));
        }
        Kind::Commodity => {
            qmap_add(b.entry("A".to_string()).or_default(), canonical, Q::int(total));
            qmap_add(b.entry("E".to_string()).or_default(), canonical, Q::int(-total));
        }
    }
    b
}

fn keyword(kind: Kind) -> &'static str {
    match kind {
        Kind::Account => "account",
        Kind::Commodity => "commodity",
    }
}

/// How an accepted result misses the expectation (for signatures).
fn miss_kind(kind: Kind, got: &Balances, alias: &str) -> &'static str {
    let shown = match kind {
        Kind::Account => got.contains_key(alias),
        Kind::Commodity => got.values().any(|m| m.contains_key(alias)),
    };
    if shown {
        "split-under-alias-name"
    } else {
        "booked-under-another-name"
    }
}

/// E1/E2: one name in one role. role 0: N is an alias of a plain canonical name; role 1: N is the canonical name.
fn judge_name(kind: Kind, shape: &str, name: &str, role: usize, cli: Option<&Path>) -> Outcome {
    let (plain_canonical, plain_alias) = match kind {
        Kind::Account => ("Tgt:Acct", "zz"),
        Kind::Commodity => ("TGT", "zz"),
    };
    let kn = kind_name(kind);
    let cat = name_category(name);
    let rolen = ["name-as-alias", "name-as-canonical"][role];
    // control: can a posting be written with exactly this name?
    let control_ok = run_one(&use_of(kind, name, 1)).map(|b| b == expect_under(kind, name, 1)).unwrap_or(false);
    let legal = doc_legal(kind, name);
    let (text, want, written) = if role == 0 {
        (format!("{} {}\n  alias {}\n\n{}{}", keyword(kind), plain_canonical, name, use_of(kind, name, 1), use_of(kind, plain_canonical, 2)), expect_under(kind, plain_canonical, 3), name)
    } else {
        (format!("{} {}\n  alias {}\n\n{}{}", keyword(kind), name, plain_alias, use_of(kind, plain_alias, 1), use_of(kind, name, 2)), expect_under(kind, name, 3), plain_alias)
    };
    let got = run_one(&text);
    if let (Some(p), Ok(b)) = (cli, &got) {
        std::fs::write(p, &text).expect("write scratch ledger");
        let out = run_cli(&["okane".to_string(), "balance".to_string(), p.to_string_lossy().to_string()]);
        let same = parse_balance_report(&out).map(|v| oka::clean_balances(&v.into_iter().collect()) == *b);
        // names with ": " or blanks cannot always be re-parsed from the report text: only a definite disagreement counts
        if same == Some(false) && !name.contains(": ") && !name.contains(' ') {
            return Outcome::violation(format!("names/{}/cli-disagrees-with-api", kn), format!("name {:?}\nAPI balances {:?}\n`okane balance`:\n{}", name, show_bal(b), out));
        }
    }
    if !(legal && control_ok) {
        let why = if !legal { "not-a-documented-name" } else { "posting-cannot-be-written-with-this-name" };
        let _ = &got;
        return Outcome::dont_care(format!("names/{}/not-judged/{}", kn, why));
    }
    match got {
        Ok(b) if b == want => Outcome::pass(format!("names/{}/transparent/{}", kn, cat)),
        Ok(b) => Outcome::violation(
            format!("names/{}/{}/{}/{}", kn, rolen, miss_kind(kind, &b, written), cat),
            format!("name {:?} ({}): a posting written {:?} must be booked on the declared canonical name\nexpected balances {:?}\nobserved balances {:?}", name, shape, written, show_bal(&want), show_bal(&b)),
        ),
        Err(e) => Outcome::violation(format!("names/{}/{}/rejected/{}", kn, rolen, cat), format!("name {:?} ({}) is a documented {} name and a posting can be written with it, but the ledger that declares it is rejected: {}", name, shape, kn, e)),
    }
}

/// Verdict for a non-ASCII blank (U+00A0, U+3000, U+2003) after a directive argument. doc/syntax.md defines
/// sp ::= [ \t] and lets every other character (U+3000 included) be part of an account / commodity name, so by the
/// document `alias 円<U+3000>` declares the alias "円<U+3000>"; the unchanged tree trims every Unicode White_Space and
/// declares "円". Each reading makes the other implementation non-transparent, the property statement does not choose:
/// DON'T-CARE, the observed reading is recorded in the outcome class. Set to "if-accepted" to make the tree's reading
/// (blank trimmed, alias resolves) binding.
const NON_ASCII_TRAILING_BLANK_VERDICT: &str = "dont-care";

/// E3: blanks between keyword and argument and after the argument, on the name line and on the alias line.
fn blanks_cases() -> Vec<(Kind, &'static str, &'static str, &'static str, String)> {
    // (kind, line, what, verdict, text); verdict: "must" | "if-accepted" | "dont-care"
    let mut v = vec![];
    for kind in [Kind::Account, Kind::Commodity] {
        let (t, a) = match kind {
            Kind::Account => ("Tgt:Acct", "b b"),
            Kind::Commodity => ("TGT", "\u{5186}"),
        };
        let body = format!("{}{}", use_of(kind, a, 1), use_of(kind, t, 2));
        let trailing: [(&str, &str, bool); 8] = [("one-space", " ", true), ("two-spaces", "  ", true), ("tab", "\t", true), ("space-tab-space", " \t ", true), ("nbsp-U+00A0", "\u{a0}", false), ("ideographic-space-U+3000", "\u{3000}", false), ("space-then-U+3000", " \u{3000}", false), ("em-space-U+2003", "\u{2003}", false)];
        for (label, tr, ascii) in trailing {
            // doc: `"account" sp+ account sp* new-line`, `sp+ "alias" sp+ account new-line`, sp ::= [ \t]
            v.push((kind, "name-line", label, if ascii { "must" } else { NON_ASCII_TRAILING_BLANK_VERDICT }, format!("{} {}{}\n  alias {}\n\n{}", keyword(kind), t, tr, a, body)));
            v.push((kind, "alias-line", label, if ascii { "if-accepted" } else { NON_ASCII_TRAILING_BLANK_VERDICT }, format!("{} {}\n  alias {}{}\n\n{}", keyword(kind), t, a, tr, body)));
        }
        for (label, sep) in [("two-spaces", "  "), ("tab", "\t"), ("space-tab-space", " \t ")] {
            v.push((kind, "name-line-separator", label, "must", format!("{}{}{}\n  alias {}\n\n{}", keyword(kind), sep, t, a, body)));
            v.push((kind, "alias-line-separator", label, "must", format!("{} {}\n  alias{}{}\n\n{}", keyword(kind), t, sep, a, body)));
            v.push((kind, "alias-line-indent", label, "must", format!("{} {}\n{}alias {}\n\n{}", keyword(kind), t, sep, a, body)));
        }
    }
    v
}

/// E4: where the directive stands. (kind, placement, verdict, files, expected total, alias, canonical)
fn placement_cases() -> Vec<(Kind, &'static str, &'static str, Vec<(String, String)>, i128, String)> {
    let mut v = vec![];
    for kind in [Kind::Account, Kind::Commodity] {
        let (t, names): (&str, &[&str]) = match kind {
            Kind::Account => ("Tgt:Acct", &["bank", "b b", "\u{9280}\u{884c}"]),
            Kind::Commodity => ("TGT", &["$", "dollar", "\u{5186}"]),
        };
        for n in names {
            let decl = |aliases: &[&str]| -> String {
                let mut s = format!("{} {}\n", keyword(kind), t);
                for a in aliases {
                    s.push_str(&format!("  alias {}\n", a));
                }
                s.push('\n');
                s
            };
            let u = |name: &str, amt: i128| use_of(kind, name, amt);
            let root = |text: String| vec![(oka::ROOT.to_string(), text)];
            let with_inc = |text: String, inc: String| vec![(oka::ROOT.to_string(), text), ("/v/decl.ledger".to_string(), inc)];
            v.push((kind, "declared-before-any-use", "must", root(format!("{}{}{}", decl(&[n]), u(n, 1), u(t, 2))), 3, n.to_string()));
            v.push((kind, "declared-after-first-use-of-canonical", "must", root(format!("{}{}{}", u(t, 1), decl(&[n]), u(n, 2))), 3, n.to_string()));
            v.push((kind, "declared-in-included-file", "must", with_inc(format!("include decl.ledger\n\n{}{}", u(n, 1), u(t, 2)), decl(&[n])), 3, n.to_string()));
            v.push((kind, "included-declaration-after-first-use", "must", with_inc(format!("{}include decl.ledger\n\n{}", u(t, 1), u(n, 2)), decl(&[n])), 3, n.to_string()));
            v.push((kind, "alias-used-inside-included-file", "must", with_inc(format!("{}include decl.ledger\n\n{}", decl(&[n]), u(t, 4)), format!("{}{}", u(n, 1), u(t, 2))), 7, n.to_string()));
            v.push((kind, "repeated-second-time-with-the-alias", "if-accepted", root(format!("{}{}{}{}", decl(&[]), u(t, 1), decl(&[n]), u(n, 2))), 3, n.to_string()));
            v.push((kind, "repeated-with-another-alias", "if-accepted", root(format!("{}{}{}{}{}", decl(&["other"]), u("other", 1), decl(&[n]), u(n, 2), u("other", 4))), 7, n.to_string()));
            v.push((kind, "declaration-file-included-twice", "if-accepted", with_inc(format!("include decl.ledger\n\n{}include decl.ledger\n\n{}", u(n, 1), u(n, 2)), decl(&[n])), 3, n.to_string()));
        }
    }
    v
}

/// Verdict of an E3/E4 case: `must` = accepted with everything under the canonical name; `if-accepted` = rejection is
/// not judged; `dont-care` = only recorded.
fn judge_expectation(family: &str, kind: Kind, label: String, class_label: &str, verdict: &str, got: Result<Balances, String>, want: &Balances, alias: &str) -> Outcome {
    let kn = kind_name(kind);
    match (verdict, got) {
        ("dont-care", got) => Outcome::dont_care(format!("{}/{}/{}/not-judged/{}", family, kn, class_label, match got {
            Ok(b) if b == *want => "blank-is-trimmed,alias-resolves",
            Ok(_) => "blank-kept-in-the-name,alias-does-not-resolve",
            Err(_) => "rejected",
        })),
        (_, Ok(b)) if b == *want => Outcome::pass(format!("{}/{}/{}/{}", family, kn, class_label, if verdict == "must" { "accepted,under-canonical-name" } else { "accepted(not-required),under-canonical-name" })),
        (_, Ok(b)) => Outcome::violation(format!("{}/{}/{}/{}", family, kn, miss_kind(kind, &b, alias), label), format!("expected balances {:?}\nobserved balances {:?}", show_bal(want), show_bal(&b))),
        ("must", Err(e)) => Outcome::violation(format!("{}/{}/rejected/{}", family, kn, label), e),
        (_, Err(_)) => Outcome::dont_care(format!("{}/{}/{}/rejected(not-judged)", family, kn, class_label)),
    }
}

fn part_e(ctx: &mut Ctx, path: &Path) -> u64 {
    let mut n = 0u64;
    for (kind, names) in [(Kind::Account, account_names()), (Kind::Commodity, commodity_names())] {
        ctx.fact(&format!("E_{}_names", kind_name(kind)), names.len() as u64);
        for (shape, name) in &names {
            for role in 0..2 {
                n += 1;
                if !ctx.next_is_mine() {
                    ctx.skip_cases(1);
                    continue;
                }
                let cli = if *shape == "realistic" { Some(path) } else { None };
                ctx.case(
                    || format!("[part E, names] {} name {:?} ({}, {}); role: {}\njudged only if the name is legal by doc/syntax.md and a declaration-free control ledger can write a posting with it", kind_name(kind), name, shape, name_category(name), ["alias of a plain canonical name", "canonical name with a plain alias"][role]),
                    || judge_name(kind, shape, name, role, cli),
                );
            }
        }
    }
    let blanks = blanks_cases();
    ctx.fact("E_blank_cases", blanks.len() as u64);
    for (kind, line, what, verdict, text) in blanks {
        n += 1;
        let (t, a) = match kind {
            Kind::Account => ("Tgt:Acct", "b b"),
            Kind::Commodity => ("TGT", "\u{5186}"),
        };
        ctx.case(
            || format!("[part E, blanks] {} directive, {}: {} ({})\n--- ledger (escaped) ---\n{}", kind_name(kind), line, what, verdict, text.escape_debug()),
            || judge_expectation("blanks", kind, format!("{}/{}", line, what), &format!("{}/{}", if line.contains("separator") || line.contains("indent") { "separator" } else { line }, if what.contains("U+") { "non-ascii-blank" } else { "ascii-blank" }), verdict, run_one(&text), &expect_under(kind, t, 3), a),
        );
    }
    let placements = placement_cases();
    ctx.fact("E_placement_cases", placements.len() as u64);
    for (kind, placement, verdict, files, total, alias) in placements {
        n += 1;
        let t = match kind {
            Kind::Account => "Tgt:Acct",
            Kind::Commodity => "TGT",
        };
        ctx.case(
            || format!("[part E, placement] {} directive {}, alias {:?} ({})\n{}", kind_name(kind), placement, alias, verdict, files.iter().map(|(p, t)| format!("--- {} ---\n{}", p, t)).collect::<String>()),
            || {
                let fs: Vec<(&str, &str)> = files.iter().map(|(p, t)| (p.as_str(), t.as_str())).collect();
                judge_expectation("placement", kind, placement.to_string(), verdict, verdict, run_files(&fs), &expect_under(kind, t, total), &alias)
            },
        );
    }
    ctx.fact("E_cases", n);
    n
}

// =================================================================================================
// Part B — conflicts
// =================================================================================================

const NAMES: [&str; 3] = ["p", "q", "r"];
const NS_NAME: [&str; 2] = ["account", "commodity"];

#[derive(Clone, Copy, PartialEq, Eq, PartialOrd, Ord, Debug)]
enum N {
    Unused,
    /// canonical because a posting used it
    Used,
    /// canonical because a declaration named it
    Declared,
    AliasOf(u8),
}

type Table = [N; 3];

/// Reference state K: one alias table per name space (0 = accounts, 1 = commodities).
#[derive(Clone, PartialEq, Eq, PartialOrd, Ord, Debug)]
struct St {
    t: [Table; 2],
}

#[derive(Clone, Copy, PartialEq, Eq, Debug)]
enum Act {
    Use { ns: u8, n: u8 },
    /// `account c` / `commodity c` followed by 0..2 `alias` lines
    Decl { ns: u8, c: u8, a: Option<u8>, b: Option<u8> },
}

/// The 21 actions of one name space, simplest first.
fn ns_actions(ns: u8) -> Vec<Act> {
    let mut v = vec![];
    for n in 0..3 {
        v.push(Act::Use { ns, n });
    }
    for c in 0..3 {
        v.push(Act::Decl { ns, c, a: None, b: None });
    }
    for c in 0..3 {
        for a in 0..3 {
            if a != c {
                v.push(Act::Decl { ns, c, a: Some(a), b: None });
            }
        }
    }
    for c in 0..3 {
        v.push(Act::Decl { ns, c, a: Some(c), b: None });
    }
    for c in 0..3 {
        for a in 0..3 {
            for b in 0..3 {
                if a != c && b != c && a != b {
                    v.push(Act::Decl { ns, c, a: Some(a), b: Some(b) });
                }
            }
        }
    }
    v
}

#[derive(Clone, Debug, PartialEq, Eq)]
enum Ref {
    /// the statement fixes acceptance and the successor table
    Accept(Table),
    /// the statement is silent on acceptance (duplicate declaration); if accepted the table must be this one
    Conditional(Table, &'static str),
    Reject(&'static str),
    DontCare(&'static str),
}

fn judge_ref(t: &Table, act: Act) -> Ref {
    match act {
        Act::Use { n, .. } => {
            let mut w = *t;
            if w[n as usize] == N::Unused {
                w[n as usize] = N::Used;
            }
            Ref::Accept(w)
        }
        Act::Decl { c, a, b, .. } => {
            if let N::AliasOf(_) = t[c as usize] {
                return Ref::Reject("canonical-already-alias");
            }
            let mut w = *t;
            let mut conditional = if t[c as usize] == N::Declared { Some("duplicate-declaration") } else { None };
            let mut dont_care = None;
            w[c as usize] = N::Declared;
            for x in [a, b].into_iter().flatten() {
                if x == c {
                    dont_care = dont_care.or(Some("alias-of-itself"));
                    continue;
                }
                match w[x as usize] {
                    N::Used => return Ref::Reject("alias-already-canonical-by-use"),
                    N::Declared => return Ref::Reject("alias-already-canonical-by-declaration"),
                    N::AliasOf(o) if o == c => conditional = conditional.or(Some("identical-alias-redeclared")),
                    N::AliasOf(_) => dont_care = dont_care.or(Some("alias-repointed")),
                    N::Unused => w[x as usize] = N::AliasOf(c),
                }
            }
            match (dont_care, conditional) {
                (Some(d), _) => Ref::DontCare(d),
                (None, Some(why)) => Ref::Conditional(w, why),
                (None, None) => Ref::Accept(w),
            }
        }
    }
}

fn act_ns(a: Act) -> usize {
    match a {
        Act::Use { ns, .. } | Act::Decl { ns, .. } => ns as usize,
    }
}

fn step(st: &St, a: Act) -> Option<St> {
    let ns = act_ns(a);
    match judge_ref(&st.t[ns], a) {
        Ref::Accept(w) | Ref::Conditional(w, _) => {
            let mut n = st.clone();
            n.t[ns] = w;
            Some(n)
        }
        _ => None,
    }
}

fn nstate(n: N) -> &'static str {
    match n {
        N::Unused => "fresh",
        N::Used => "used",
        N::Declared => "declared",
        N::AliasOf(_) => "alias",
    }
}

fn act_kind(t: &Table, a: Act) -> String {
    match a {
        Act::Use { n, .. } => format!("use-{}-name", nstate(t[n as usize])),
        Act::Decl { c, a, b, .. } => format!("declare-{}-name{}", nstate(t[c as usize]), match (a, b) {
            (None, _) => "",
            (Some(x), None) if x == c => "+alias-itself",
            (Some(_), None) => "+alias",
            _ => "+2aliases",
        }),
    }
}

fn amount_of(i: usize) -> i128 {
    1i128 << i
}

fn render_act(a: Act, i: usize) -> String {
    match a {
        Act::Use { ns: 0, n } => format!("2024/01/01 use {}\n  {}  {} X\n  E\n\n", i, NAMES[n as usize], amount_of(i)),
        Act::Use { n, .. } => format!("2024/01/01 use {}\n  A  {} {}\n  E\n\n", i, amount_of(i), NAMES[n as usize]),
        Act::Decl { ns, c, a, b } => {
            let mut s = format!("{} {}\n", NS_NAME[ns as usize], NAMES[c as usize]);
            for x in [a, b].into_iter().flatten() {
                s.push_str(&format!("  alias {}\n", NAMES[x as usize]));
            }
            s.push('\n');
            s
        }
    }
}

fn render_hist(acts: &[Act]) -> String {
    acts.iter().enumerate().map(|(i, a)| render_act(*a, i)).collect()
}

fn probe() -> Vec<Act> {
    let mut v = vec![];
    for ns in 0..2 {
        for n in 0..3 {
            v.push(Act::Use { ns, n });
        }
    }
    v
}

/// Reference balances of a sequence all of whose actions are accepted; also tells whether the
/// acceptance of every action is fixed by the statement.
fn ref_balances(acts: &[Act]) -> (Balances, St, bool) {
    let mut st = St { t: [[N::Unused; 3]; 2] };
    let mut bal = Balances::new();
    let mut all_must = true;
    for (i, a) in acts.iter().enumerate() {
        let ns = act_ns(*a);
        if let Act::Use { n, .. } = a {
            let canon = match st.t[ns][*n as usize] {
                N::AliasOf(c) => c,
                _ => *n,
            } as usize;
            let v = Q::int(amount_of(i));
            if ns == 0 {
                qmap_add(bal.entry(NAMES[canon].to_string()).or_default(), "X", v);
                qmap_add(bal.entry("E".to_string()).or_default(), "X", v.neg());
            } else {
                qmap_add(bal.entry("A".to_string()).or_default(), NAMES[canon], v);
                qmap_add(bal.entry("E".to_string()).or_default(), NAMES[canon], v.neg());
            }
        }
        match judge_ref(&st.t[ns], *a) {
            Ref::Accept(w) => st.t[ns] = w,
            Ref::Conditional(w, _) => {
                st.t[ns] = w;
                all_must = false;
            }
            other => panic!("harness bug: reference history contains a non-accepted action: {:?}", other),
        }
    }
    (oka::clean_balances(&bal), st, all_must)
}

fn describe_b(family: &str, hist: &[Act], a: Act) -> String {
    let st = ref_balances(hist).1;
    let r = judge_ref(&st.t[act_ns(a)], a);
    let mut all = hist.to_vec();
    all.push(a);
    format!(
        "[part B, {}] history of {} accepted entries, then the JUDGED entry (the last one)\nreference alias tables before it: accounts {:?}, commodities {:?}\nreference verdict: {}\n--- ledger ---\n{}",
        family,
        hist.len(),
        st.t[0],
        st.t[1],
        match &r {
            Ref::Accept(_) => "MUST-ACCEPT".to_string(),
            Ref::Conditional(_, w) => format!("acceptance not fixed ({}); if accepted the alias table must be the predicted one", w),
            Ref::Reject(w) => format!("MUST-REJECT ({})", w),
            Ref::DontCare(w) => format!("DON'T-CARE ({})", w),
        },
        render_hist(&all)
    )
}

/// In which name space do the observed balances differ from the reference? (classification only)
fn balance_diff_ns(got: &Balances, want: &Balances) -> &'static str {
    let keys = |b: &Balances| -> BTreeSet<(String, String, Q)> { b.iter().flat_map(|(a, m)| m.iter().map(move |(k, v)| (a.clone(), k.clone(), *v))).collect() };
    let (g, w) = (keys(got), keys(want));
    let mut acc = false;
    let mut com = false;
    for (a, k, _) in g.symmetric_difference(&w) {
        if k == "X" && a != "A" {
            acc = true;
        } else {
            com = true;
        }
    }
    match (acc, com) {
        (true, false) => "account",
        (false, true) => "commodity",
        _ => "account+commodity",
    }
}

/// How do the observed balances differ from the reference? (classification only)
fn balance_diff_kind(st: &St, got: &Balances, want: &Balances) -> &'static str {
    let alias_acc: Vec<&str> = (0..3).filter(|i| matches!(st.t[0][*i], N::AliasOf(_))).map(|i| NAMES[i]).collect();
    let alias_com: Vec<&str> = (0..3).filter(|i| matches!(st.t[1][*i], N::AliasOf(_))).map(|i| NAMES[i]).collect();
    if got.iter().any(|(a, m)| alias_acc.contains(&a.as_str()) || (a == "A" && m.keys().any(|k| alias_com.contains(&k.as_str())))) {
        return "split-under-alias-name";
    }
    let names = |b: &Balances| -> BTreeSet<String> { b.iter().flat_map(|(a, m)| m.keys().map(move |k| format!("{}/{}", a, k))).collect() };
    if names(got).len() < names(want).len() {
        "merged-distinct-names"
    } else {
        "misattributed"
    }
}

fn run_edge(family: &str, hist: &[Act], a: Act, cli_path: Option<&Path>) -> Outcome {
    let (_, st, prefix_all_must) = ref_balances(hist);
    let ns = act_ns(a);
    let nsn = NS_NAME[ns];
    let table = &st.t[ns];
    let r = judge_ref(table, a);
    let kind = act_kind(table, a);
    let mut all = hist.to_vec();
    all.push(a);
    let text = render_hist(&all);
    let got = oka::process_text(&text);
    // the same through the CLI: success/failure and balances must agree with the API
    if let Some(p) = cli_path {
        std::fs::write(p, &text).expect("write scratch ledger");
        let out = run_cli(&["okane".to_string(), "balance".to_string(), p.to_string_lossy().to_string()]);
        let agrees = match &got {
            Ok((b, _)) => parse_balance_report(&out).map(|v| oka::clean_balances(&v.into_iter().collect()) == *b).unwrap_or(false),
            Err(_) => out.starts_with("EXIT 1\n"),
        };
        if !agrees {
            return Outcome::violation(format!("conflict/cli-disagrees-with-api/{}", nsn), format!("API: {:?}\n`okane balance`:\n{}", got.as_ref().map(|x| show_bal(&x.0)).map_err(|e| e.variant.clone()), out));
        }
    }
    // a failure has to be attributed to the judged entry, not to the history
    let prefix_failed = |why: &str| -> Option<Outcome> {
        if hist.is_empty() {
            return None;
        }
        match oka::process_text(&render_hist(hist)) {
            Ok(_) => None,
            Err(e) if prefix_all_must => Some(Outcome::violation(format!("conflict/must-accept-but-rejected/{}/in-history/{}", nsn, e.variant), format!("the history before the judged entry consists of MUST-ACCEPT entries only, yet it is rejected: {}", e.rendered))),
            Err(_) => Some(Outcome::dont_care(format!("{}/history-rejected-at-a-duplicate-declaration/{}", family, why))),
        }
    };
    let observed_state = |next: &Table| -> Result<(), (Balances, Balances, String)> {
        // balances right after the judged entry, then after the probe that uses every name once
        let mut nst = st.clone();
        nst.t[ns] = *next;
        let want0 = ref_balances_unchecked(&all);
        let got0 = &got.as_ref().expect("accepted").0;
        if *got0 != want0 {
            return Err((got0.clone(), want0.clone(), format!("{}/{}", balance_diff_ns(got0, &want0), balance_diff_kind(&nst, got0, &want0))));
        }
        let mut with_probe = all.clone();
        with_probe.extend(probe());
        let want1 = ref_balances_unchecked(&with_probe);
        match oka::process_text(&render_hist(&with_probe)) {
            Ok((got1, _)) if got1 == want1 => Ok(()),
            Ok((got1, _)) => {
                let k = format!("{}/{}", balance_diff_ns(&got1, &want1), balance_diff_kind(&nst, &got1, &want1));
                Err((got1, want1, k))
            }
            Err(e) => Err((Balances::new(), want1, format!("{}/probe-postings-rejected:{}", nsn, e.variant))),
        }
    };
    match (&r, &got) {
        (Ref::Reject(why), Err(e)) => prefix_failed(why).unwrap_or_else(|| Outcome::pass(format!("{}/{}/must-reject/{}->error:{}", family, nsn, why, e.variant))),
        (Ref::Reject(why), Ok((b, _))) => Outcome::violation(
            format!("conflict/must-reject-but-accepted/{}/{}", nsn, why),
            format!("the judged {} declaration ({}) conflicts with the alias table ({}) but the ledger is accepted; balances now: {:?}", nsn, kind, why, show_bal(b)),
        ),
        (Ref::Accept(next), Ok(_)) => match observed_state(next) {
            Ok(()) => Outcome::pass(format!("{}/{}/must-accept/{}->accepted,balances-under-canonical-names", family, nsn, kind)),
            Err((g, w, k)) => Outcome::violation(format!("conflict/accepted-but-balances-differ/{}", k), format!("judged entry: {} {}\nexpected balances {:?}\nobserved balances {:?}", nsn, kind, show_bal(&w), show_bal(&g))),
        },
        (Ref::Accept(_), Err(e)) => prefix_failed("must-accept").unwrap_or_else(|| Outcome::violation(format!("conflict/must-accept-but-rejected/{}/{}/{}", nsn, if matches!(a, Act::Use { .. }) { "use" } else { "declare" }, e.variant), format!("judged entry: {} {}\n{}", nsn, kind, e.rendered))),
        (Ref::Conditional(next, why), Ok(_)) => match observed_state(next) {
            Ok(()) => Outcome::pass(format!("{}/{}/{}->accepted,table-as-predicted", family, nsn, why)),
            Err((g, w, k)) => Outcome::violation(format!("conflict/accepted-but-balances-differ/{}", k), format!("judged entry: {} {} ({})\nexpected balances {:?}\nobserved balances {:?}", nsn, kind, why, show_bal(&w), show_bal(&g))),
        },
        (Ref::Conditional(_, why), Err(e)) => prefix_failed(why).unwrap_or_else(|| Outcome::dont_care(format!("{}/{}/{}->error:{}", family, nsn, why, e.variant))),
        (Ref::DontCare(why), Ok(_)) => Outcome::dont_care(format!("{}/{}/{}->accepted", family, nsn, why)),
        (Ref::DontCare(why), Err(e)) => prefix_failed(why).unwrap_or_else(|| Outcome::dont_care(format!("{}/{}/{}->error:{}", family, nsn, why, e.variant))),
    }
}

/// Reference balances where the last entries may be anything the reference accepts or conditionally accepts.
fn ref_balances_unchecked(acts: &[Act]) -> Balances {
    ref_balances(acts).0
}

fn part_b(ctx: &mut Ctx, path: &Path) -> u64 {
    let init = St { t: [[N::Unused; 3]; 2] };
    // ---- B1: BFS over alias tables, both name spaces in one ledger
    let mut alpha: Vec<Act> = ns_actions(0);
    alpha.extend(ns_actions(1));
    let depth1 = ctx.tier.pick(4usize, 64usize);
    let mut b1_cases = 0u64;
    let mut by_verdict: BTreeMap<&'static str, u64> = BTreeMap::new();
    let b = bfs::bfs(
        init.clone(),
        depth1,
        alpha.len(),
        |s, ai| step(s, alpha[ai]),
        |hist, s, ai, _succ| {
            let a = alpha[ai];
            b1_cases += 1;
            *by_verdict
                .entry(match judge_ref(&s.t[act_ns(a)], a) {
                    Ref::Accept(_) => "must_accept",
                    Ref::Reject(_) => "must_reject",
                    Ref::Conditional(..) => "conditional",
                    Ref::DontCare(_) => "dont_care",
                })
                .or_default() += 1;
            if !ctx.next_is_mine() {
                ctx.skip_cases(1);
                return;
            }
            let hist_a: Vec<Act> = hist.iter().map(|i| alpha[*i]).collect();
            ctx.case(|| describe_b("B1", &hist_a, a), || run_edge("B1", &hist_a, a, Some(path)));
        },
    );
    ctx.fact("B1_bfs_states", b.states.len() as u64);
    ctx.fact("B1_bfs_edges", b.edges);
    ctx.fact("B1_bfs_max_depth", b.max_depth as u64);
    ctx.fact("B1_bfs_depth_bound", depth1 as u64);
    ctx.fact("B1_actions", alpha.len() as u64);
    for (k, v) in &by_verdict {
        ctx.fact(&format!("B1_edges_{}", k), *v);
    }
    // ---- B2: every raw sequence per name space (no de-duplication)
    let depth2 = ctx.tier.pick(4usize, 5usize);
    let mut histories = 0u64;
    let mut b2_cases = 0u64;
    let mut by_verdict2: BTreeMap<&'static str, u64> = BTreeMap::new();
    for ns in 0..2u8 {
        let acts = ns_actions(ns);
        let mut stack: Vec<(Vec<Act>, St)> = vec![(vec![], init.clone())];
        while let Some((hist, st)) = stack.pop() {
            histories += 1;
            for a in &acts {
                b2_cases += 1;
                *by_verdict2
                    .entry(match judge_ref(&st.t[ns as usize], *a) {
                        Ref::Accept(_) => "must_accept",
                        Ref::Reject(_) => "must_reject",
                        Ref::Conditional(..) => "conditional",
                        Ref::DontCare(_) => "dont_care",
                    })
                    .or_default() += 1;
                if !ctx.next_is_mine() {
                    ctx.skip_cases(1);
                    continue;
                }
                ctx.case(|| describe_b("B2", &hist, *a), || run_edge("B2", &hist, *a, None));
            }
            if hist.len() + 1 < depth2 {
                for a in acts.iter().rev() {
                    if let Some(n) = step(&st, *a) {
                        let mut h = hist.clone();
                        h.push(*a);
                        stack.push((h, n));
                    }
                }
            }
        }
    }
    for (k, v) in &by_verdict2 {
        ctx.fact(&format!("B2_edges_{}", k), *v);
    }
    ctx.fact("B2_depth", depth2 as u64);
    ctx.fact("B2_actions_per_name_space", 21u64);
    ctx.fact("B2_histories", histories);
    ctx.fact("B2_cases", b2_cases);
    ctx.fact("B1_cases", b1_cases);
    b.states.len() as u64 + histories
}


// ---------------------------------------------------------------------------------------------------------------
// Part F — aliases in amounts handed to a query (Ledger::eval, `okane primitive eval`, `-X`)
// ---------------------------------------------------------------------------------------------------------------
//
// "writing any of its aliases in ... amounts ... gives the same ... as writing the canonical name, and reports show
// canonical names only": an amount written with an alias AFTER the declaration, evaluated against the loaded ledger,
// is an amount in the canonical commodity. MUST for Ledger::eval and the `primitive eval` command; `-X <alias>` is a
// command-line argument, not an amount: if the report is produced it must be the `-X <canonical>` report, a refusal is
// recorded and not judged.
fn part_f(ctx: &mut Ctx, path: &Path) -> u64 {
    let mut n = 0u64;
    for base in [&L2, &L3] {
        let c = compile(base);
        let text = c.render(&vec![0u8; c.sites.len()]);
        for (ei, ent) in base.entities.iter().enumerate() {
            if ent.kind != Kind::Commodity {
                continue;
            }
            for alias in c.aliases[ei].clone() {
                for form in 0..3usize {
                    n += 1;
                    let canonical = ent.canonical;
                    let (expr_alias, expr_canon, want) = match form {
                        0 => (format!("3 {}", alias), format!("3 {}", canonical), 3),
                        1 => (format!("(1 {} + 1 {})", alias, canonical), format!("(1 {c} + 1 {c})", c = canonical), 2),
                        _ => (format!("((2 {}) * 2)", alias), format!("((2 {}) * 2)", canonical), 4),
                    };
                    let text = &text;
                    let alias = &alias;
                    ctx.case(
                        || format!("[part F, {}] {} given to Ledger::eval and to `okane primitive eval --date 2024-02-01 -f <file>`; `okane balance -X {}` against `-X {}`\n--- ledger ---\n{}", base.name, expr_alias, alias, canonical, text),
                        || {
                            let api = oka::with_ledger(&[(oka::ROOT, text.as_str())], oka::ROOT, None, |r| {
                                let (l, rc) = match r {
                                    Ok(x) => x,
                                    Err(e) => return Err(format!("harness bug: base ledger rejected: {}", e.rendered)),
                                };
                                Ok(l.eval(rc, &expr_alias, &okane_core::report::query::EvalContext { date: oka::date(2024, 2, 1), exchange: None }).map(|a| oka::amount_to_qmap(&a)).map_err(|e| e.to_string()))
                            });
                            let api = match api {
                                Ok(x) => x,
                                Err(e) => panic!("{}", e),
                            };
                            let mut want_map = QMap::new();
                            want_map.insert(canonical.to_string(), Q::int(want));
                            match api {
                                Err(e) => return Outcome::violation(format!("query-amount/eval-rejected-alias/{}", alias_shape(alias)), format!("Ledger::eval({:?}) after `commodity {}` declared alias {:?}: {}", expr_alias, canonical, alias, e)),
                                Ok(m) => {
                                    let m: QMap = m.into_iter().filter(|(_, v)| !v.is_zero()).collect();
                                    if m != want_map {
                                        return Outcome::violation(format!("query-amount/eval-alias-not-canonical/{}", alias_shape(alias)), format!("Ledger::eval({:?}) = {:?}, expected {} {}", expr_alias, m, want, canonical));
                                    }
                                }
                            }
                            std::fs::write(path, text).expect("write scratch ledger");
                            let p = path.to_string_lossy().to_string();
                            let cli = |e: &str| run_cli(&["okane", "primitive", "eval", "--date", "2024-02-01", "-f", &p, "--", e].iter().map(|x| x.to_string()).collect::<Vec<_>>());
                            let (oa, oc) = (cli(&expr_alias), cli(&expr_canon));
                            if !oc.starts_with("EXIT 0") {
                                panic!("harness bug: canonical expression rejected by the command line: {}", oc);
                            }
                            if oa != oc {
                                return Outcome::violation(format!("query-amount/cli-eval-alias-differs/{}", alias_shape(alias)), format!("okane primitive eval -- {:?}\n{}\nokane primitive eval -- {:?}\n{}", expr_alias, oa, expr_canon, oc));
                            }
                            let bal = |x: &str| run_cli(&["okane", "balance", "-X", x, "--now", "2024-02-01", &p].iter().map(|x| x.to_string()).collect::<Vec<_>>());
                            let (ba, bc) = (bal(alias), bal(canonical));
                            if !ba.starts_with("EXIT 0") {
                                return Outcome::dont_care("query-amount/alias-ok/-X-alias-refused-not-judged");
                            }
                            if ba != bc {
                                return Outcome::violation(format!("query-amount/-X-alias-report-differs/{}", alias_shape(alias)), format!("okane balance -X {:?}\n{}\nokane balance -X {:?}\n{}", alias, ba, canonical, bc));
                            }
                            Outcome::pass("query-amount/alias-ok/-X-alias-same-report")
                        },
                    );
                }
            }
        }
    }
    n
}

// ---------------------------------------------------------------------------------------------------------------
// Part G — the amount of a `format` line
// ---------------------------------------------------------------------------------------------------------------
//
// `format <amount>` inside a `commodity` block carries an amount (syntax::CommodityDetail::Format(expr::Amount), parsed
// by the same `expr::amount` as a posting amount). "After [a] `commodity` declaration, writing any of its aliases in
// later ... amounts ... gives the same balance and register reports as writing the canonical name": when the format
// amount stands BELOW the `alias` line, spelling its commodity by that alias must be the same thing as spelling the
// canonical name — the declared precision (and with it: which transactions balance, how ranged / converted balances
// are rounded) must not depend on the spelling.
//
// Enumerated completely in both tiers: 3 aliases (symbol, word, non-ASCII) x 7 placements of the format line
// relative to the alias line x 5 format styles (precision 0..3, with / without thousands separator) x 2 ledger bodies
// (a transaction that balances only after rounding to the declared precision; exact transactions whose ranged and
// converted balances are rounded) x 2 spellings of the body (canonical names / through aliases) x 8 spellings of the
// commodity in the format amount (canonical = reference, the 3 aliases = MUST when declared above the line,
// and not judged: no commodity, another declared commodity, an alias of another commodity, an undeclared commodity,
// an alias declared BELOW the format line).

const G_CANON: &str = "USD";
const G_ALIASES: [&str; 3] = ["$", "dollar", "\u{7c73}\u{30c9}\u{30eb}"];
/// (format number, precision), simplest first
const G_STYLES: [(&str, u32); 5] = [("1,000.00", 2), ("1000.00", 2), ("1,000", 0), ("0.0", 1), ("1,000.000", 3)];
/// (label, must the canonical form be accepted?)  `false`: a repeated `commodity` block, acceptance is not required
/// by the statement (as in parts B and E); if the canonical spelling is accepted the alias spellings are judged.
const G_PLACEMENTS: [(&str, bool); 7] = [
    ("same-block-after-all-alias-lines", true),
    ("same-block-between-alias-lines-own-alias-above", true),
    ("same-block-above-its-own-alias-line", true),
    ("second-commodity-block", false),
    ("second-commodity-block-after-first-use", false),
    ("format-in-included-file", false),
    ("aliases-in-included-file", false),
];
const G_BODIES: [&str; 2] = ["balances-only-at-declared-precision", "exact-transactions-rounded-reports"];
const G_LEDGER_SPELLINGS: [&str; 2] = ["ledger-in-canonical-names", "ledger-through-aliases"];
const G_COMMANDS: [(&str, &[&str]); 4] = [
    ("balance", &["balance", "{}"]),
    ("register", &["register", "{}"]),
    ("balance-range", &["balance", "--start", "2024-01-01", "--now", "2024-02-01", "{}"]),
    ("balance-X-USD", &["balance", "-X", "USD", "--now", "2024-02-01", "{}"]),
];

#[derive(Clone, Copy, PartialEq, Eq, Debug)]
enum GSpell {
    Canonical,
    Alias(usize),
    NoCommodity,
    OtherCanonical,
    OtherAlias,
    Undeclared,
}

const G_SPELLINGS: [GSpell; 8] = [GSpell::Canonical, GSpell::Alias(0), GSpell::Alias(1), GSpell::Alias(2), GSpell::NoCommodity, GSpell::OtherCanonical, GSpell::OtherAlias, GSpell::Undeclared];

impl GSpell {
    fn text(self) -> &'static str {
        match self {
            GSpell::Canonical => G_CANON,
            GSpell::Alias(i) => G_ALIASES[i],
            GSpell::NoCommodity => "",
            GSpell::OtherCanonical => "JPY",
            GSpell::OtherAlias => "\u{a5}",
            GSpell::Undeclared => "CHF",
        }
    }
    fn label(self) -> &'static str {
        match self {
            GSpell::Canonical => "canonical-name",
            GSpell::Alias(i) => g_alias_shape(G_ALIASES[i]),
            GSpell::NoCommodity => "no-commodity",
            GSpell::OtherCanonical => "another-declared-commodity",
            GSpell::OtherAlias => "alias-of-another-commodity",
            GSpell::Undeclared => "undeclared-commodity",
        }
    }
}

fn g_alias_shape(a: &str) -> &'static str {
    if !a.is_ascii() {
        "non-ascii-alias"
    } else if a.chars().any(|c| c.is_alphanumeric()) {
        "word-alias"
    } else {
        "symbol-alias"
    }
}

#[derive(Clone, Copy, PartialEq, Eq, Debug)]
struct GCase {
    placement: usize,
    style: usize,
    body: usize,
    lsp: usize,
    spell: GSpell,
}

/// (root file, included file `fmt.ledger` if any)
fn g_render(g: &GCase) -> (String, Option<String>) {
    let (fmt_num, p) = G_STYLES[g.style];
    let fmt_line = format!("  format {}{}{}\n", fmt_num, if g.spell.text().is_empty() { "" } else { " " }, g.spell.text());
    let alias_line = |i: usize| format!("  alias {}\n", G_ALIASES[i]);
    // the alias that matters for the order inside the block: the one written in the format line, else the first
    let own = match g.spell {
        GSpell::Alias(i) => i,
        _ => 0,
    };
    let others: String = (0..3).filter(|i| *i != own).map(alias_line).collect();
    let all: String = (0..3).map(alias_line).collect();
    let other_decl = "commodity JPY\n  alias \u{a5}\n\n";
    // names used by the transactions
    let n = |i: usize| if g.lsp == 0 { G_CANON } else { [G_ALIASES[0], G_ALIASES[1], G_CANON, G_ALIASES[2]][i] };
    let open = format!("2024/01/01 open\n  Assets:Bank  100 {}\n  Equity  -100 {}\n\n", n(0), n(2));
    let zeros = "0".repeat(p as usize);
    let body = if g.body == 0 {
        let part = format!("1.{}1", zeros);
        let total = if p == 0 { "-3".to_string() } else { format!("-3.{}", zeros) };
        format!("2024/01/02 bill split three ways, the rest is below the declared precision\n  Expenses:A  {part} {}\n  Expenses:B  {part} {}\n  Expenses:C  {part} {}\n  Assets:Bank  {total} {}\n\n", n(0), n(1), n(2), n(3), part = part, total = total)
    } else {
        let v = format!("1.{}6", zeros);
        format!("2024/01/02 exact, one digit more than the declared precision\n  Expenses:A  {v} {}\n  Assets:Bank  -{v} {}\n\n2024/01/03 euros at a price with four decimals\n  Assets:Broker  3 EUR @ 1.1111 {}\n  Assets:Bank  -3.3333 {}\n\n", n(0), n(2), n(1), n(3), v = v)
    };
    let fmt_block = format!("commodity {}\n{}\n", G_CANON, fmt_line);
    let decl_block = format!("commodity {}\n{}\n", G_CANON, all);
    match G_PLACEMENTS[g.placement].0 {
        "same-block-after-all-alias-lines" => (format!("{}commodity {}\n{}{}\n{}{}", other_decl, G_CANON, all, fmt_line, open, body), None),
        "same-block-between-alias-lines-own-alias-above" => (format!("{}commodity {}\n{}{}{}\n{}{}", other_decl, G_CANON, alias_line(own), fmt_line, others, open, body), None),
        "same-block-above-its-own-alias-line" => (format!("{}commodity {}\n{}{}{}\n{}{}", other_decl, G_CANON, others, fmt_line, alias_line(own), open, body), None),
        "second-commodity-block" => (format!("{}{}{}{}{}", other_decl, decl_block, fmt_block, open, body), None),
        "second-commodity-block-after-first-use" => (format!("{}{}{}{}{}", other_decl, decl_block, open, fmt_block, body), None),
        "format-in-included-file" => (format!("{}{}include fmt.ledger\n\n{}{}", other_decl, decl_block, open, body), Some(fmt_block)),
        "aliases-in-included-file" => (format!("{}include fmt.ledger\n\n{}{}{}", other_decl, fmt_block, open, body), Some(decl_block)),
        other => panic!("harness bug: unknown placement {}", other),
    }
}

#[derive(Clone, PartialEq, Eq, Debug)]
struct GApi {
    balance: Balances,
    txns: Vec<TxnView>,
    range_balance: Balances,
    converted: Result<Balances, String>,
}

#[derive(Clone, PartialEq, Eq, Debug)]
struct GObs {
    api: Result<GApi, String>,
    cli: Vec<String>,
}

fn g_observe(g: &GCase, dir: &Path) -> GObs {
    let (root, inc) = g_render(g);
    g_observe_texts(root, inc, dir)
}

fn g_observe_texts(root: String, inc: Option<String>, dir: &Path) -> GObs {
    use okane_core::report::query::{Conversion, ConversionStrategy};
    let mut files: Vec<(&str, &str)> = vec![(oka::ROOT, root.as_str())];
    if let Some(i) = &inc {
        files.push(("/v/fmt.ledger", i.as_str()));
    }
    let api = oka::with_ledger(&files, oka::ROOT, None, |r| {
        let (l, ctx) = match r {
            Ok(x) => x,
            Err(e) => return Err(format!("{}: {}", e.variant, e.rendered.lines().next().unwrap_or(""))),
        };
        let txns = oka::txn_views(l);
        let balance = match l.balance(ctx, &BalanceQuery::default()) {
            Ok(b) => oka::balance_to_map(&b),
            Err(e) => return Err(format!("balance query failed: {}", e)),
        };
        let q = BalanceQuery { conversion: None, date_range: DateRange { start: Some(oka::date(2024, 1, 1)), end: None } };
        let range_balance = match l.balance(ctx, &q) {
            Ok(b) => oka::balance_to_map(&b),
            Err(e) => return Err(format!("range balance query failed: {}", e)),
        };
        let converted = match ctx.commodity(G_CANON) {
            None => Err(format!("commodity {} not found", G_CANON)),
            Some(target) => {
                let q = BalanceQuery { conversion: Some(Conversion { strategy: ConversionStrategy::UpToDate { now: oka::date(2024, 2, 1) }, target }), date_range: DateRange::default() };
                match l.balance(ctx, &q) {
                    Ok(b) => Ok(oka::balance_to_map(&b)),
                    Err(e) => Err(e.to_string()),
                }
            }
        };
        Ok(GApi { balance, txns, range_balance, converted })
    });
    let main = dir.join("main.ledger");
    std::fs::write(&main, &root).expect("write scratch ledger");
    let incp = dir.join("fmt.ledger");
    match &inc {
        Some(i) => std::fs::write(&incp, i).expect("write scratch include"),
        None => {
            let _ = std::fs::remove_file(&incp);
        }
    }
    let pstr = main.to_string_lossy().to_string();
    let dstr = dir.to_string_lossy().to_string();
    let cli = G_COMMANDS
        .iter()
        .map(|(_, args)| {
            let mut a = vec!["okane".to_string()];
            a.extend(args.iter().map(|x| if *x == "{}" { pstr.clone() } else { x.to_string() }));
            run_cli(&a).replace(&pstr, "<file>").replace(&dstr, "<dir>")
        })
        .collect();
    GObs { api, cli }
}

fn g_shows_alias_api(a: &GApi) -> bool {
    let bad = |b: &Balances| b.values().any(|m| m.keys().any(|k| G_ALIASES.contains(&k.as_str()) || k == "\u{a5}"));
    bad(&a.balance) || bad(&a.range_balance) || a.converted.as_ref().map(bad).unwrap_or(false) || a.txns.iter().flat_map(|t| &t.postings).any(|p| p.amount.keys().any(|k| G_ALIASES.contains(&k.as_str())))
}

fn g_shows_alias_text(out: &str) -> bool {
    out.strip_prefix("EXIT 0\n").map(|b| G_ALIASES.iter().any(|a| b.contains(a))).unwrap_or(false)
}

/// (kind, detail) of the first hard difference between the reference (canonical spelling) and this spelling.
fn g_diff(canon: &GObs, got: &GObs) -> Option<(String, String)> {
    let ca = match &canon.api {
        Ok(a) => a,
        Err(e) => {
            // the canonical spelling is rejected (only possible where acceptance is not required): the alias spelling must be rejected too
            return match &got.api {
                Err(_) => None,
                Ok(_) => Some(("rejected-ledger-accepted".into(), format!("with the canonical name in the format line the ledger is rejected ({}); with this spelling it is accepted", e))),
            };
        }
    };
    match &got.api {
        Err(e) => return Some(("accepted-ledger-rejected".into(), format!("with the canonical name in the format line the ledger is accepted; with this spelling it is rejected: {}", e))),
        Ok(ga) => {
            let shows = if g_shows_alias_api(ga) { "alias-name-shown" } else { "values-differ" };
            if ga.balance != ca.balance || ga.txns != ca.txns {
                return Some((shows.into(), format!("Ledger::balance / transactions\n canonical spelling: {:?}\n this spelling:      {:?}", show_bal(&ca.balance), show_bal(&ga.balance))));
            }
            if ga.range_balance != ca.range_balance {
                return Some((shows.into(), format!("Ledger::balance from 2024-01-01 (rounded to the declared precision)\n canonical spelling: {:?}\n this spelling:      {:?}", show_bal(&ca.range_balance), show_bal(&ga.range_balance))));
            }
            if ga.converted != ca.converted {
                return Some((shows.into(), format!("Ledger::balance converted to USD, up to date\n canonical spelling: {:?}\n this spelling:      {:?}", ca.converted.as_ref().map(show_bal), ga.converted.as_ref().map(show_bal))));
            }
        }
    }
    for (i, (label, args)) in G_COMMANDS.iter().enumerate() {
        let (a, b) = (&canon.cli[i], &got.cli[i]);
        if a == b {
            continue;
        }
        if label.starts_with("balance") {
            if let (Some(x), Some(y)) = (parse_balance_report(a), parse_balance_report(b)) {
                if x == y {
                    continue;
                }
            }
        }
        let kind = if g_shows_alias_text(b) {
            "alias-name-shown"
        } else if a.starts_with("EXIT 0") != b.starts_with("EXIT 0") {
            "fails"
        } else {
            "values-differ"
        };
        return Some((format!("cli-{}-{}", label, kind), format!("okane {}\n--- canonical spelling ---\n{}\n--- this spelling ---\n{}", args.join(" ").replace("{}", "<file>"), a, b)));
    }
    None
}

/// Hand-checked values of the canonical form. Body 0 (`balance`, not rounded): A = B = C = 1 + 10^-(p+1), Bank = 100 - 3.
/// Body 1 (`balance -X USD`, rounded to the declared precision p; no value is a tie):
///   A = 1 + 6*10^-(p+1);  Bank = 100 - A - 3.3333;  Broker = 3 EUR = 3.3333 USD
///   p=0: 1.6 -> 2, 95.0667 -> 95, 3;  p=1: 1.06 -> 1.1, 95.6067 -> 95.6, 3.3;  p=2: 1.006 -> 1.01, 95.6607 -> 95.66, 3.33;
///   p=3: 1.0006 -> 1.001, 95.6661 -> 95.666, 3.333.
fn g_pinned(body: usize, p: u32) -> (usize, Vec<(String, QMap)>) {
    let one = |acc: &str, v: &str| -> (String, QMap) {
        let mut m = QMap::new();
        m.insert(G_CANON.to_string(), Q::parse(v));
        (acc.to_string(), m)
    };
    if body == 0 {
        let part = ["1.1", "1.01", "1.001", "1.0001"][p as usize];
        (0, vec![one("Assets:Bank", "97"), one("Equity", "-100"), one("Expenses:A", part), one("Expenses:B", part), one("Expenses:C", part)])
    } else {
        let (a, bank, broker) = [("2", "95", "3"), ("1.1", "95.6", "3.3"), ("1.01", "95.66", "3.33"), ("1.001", "95.666", "3.333")][p as usize];
        (3, vec![one("Assets:Bank", bank), one("Assets:Broker", broker), one("Equity", "-100"), one("Expenses:A", a)])
    }
}

/// Health of the reference (canonical spelling everywhere). Err(why) = unhealthy; Ok(None) = rejected where acceptance is
/// not required; Ok(Some(load_bearing)) = healthy, and whether removing the format line changes the observation.
fn g_reference_health(g: &GCase, canon: &GObs, dir: &Path) -> Result<Option<bool>, String> {
    let a = match &canon.api {
        Ok(a) => a,
        Err(e) => {
            return if G_PLACEMENTS[g.placement].1 { Err(format!("the ledger with the canonical name in the format line is rejected: {}", e)) } else { Ok(None) };
        }
    };
    if g_shows_alias_api(a) {
        return Err("the all-canonical form reports an alias name".into());
    }
    if let Err(e) = &a.converted {
        return Err(format!("conversion to USD fails on the all-canonical form: {}", e));
    }
    for (i, (label, _)) in G_COMMANDS.iter().enumerate() {
        if !canon.cli[i].starts_with("EXIT 0\n") {
            return Err(format!("`okane {}` fails on the all-canonical form:\n{}", label, canon.cli[i]));
        }
        if g_shows_alias_text(&canon.cli[i]) {
            return Err(format!("`okane {}` on the all-canonical form prints an alias:\n{}", label, canon.cli[i]));
        }
    }
    let (cmd, want) = g_pinned(g.body, G_STYLES[g.style].1);
    let got = parse_balance_report(&canon.cli[cmd]).map(|v| v.into_iter().map(|(a, m)| (a, m.into_iter().filter(|(_, q)| !q.is_zero()).collect::<QMap>())).collect::<Vec<_>>());
    if got.as_ref() != Some(&want) {
        return Err(format!("`okane {}` on the all-canonical form differs from the hand-checked values\n--- expected ---\n{:?}\n--- observed ---\n{}", G_COMMANDS[cmd].0, want, canon.cli[cmd]));
    }
    // is the format line load-bearing? (the same files without the format line must be observably different)
    let strip = |t: String| -> String { t.split_inclusive('\n').filter(|l| !l.starts_with("  format ")).collect() };
    let (root, inc) = g_render(g);
    let without = g_observe_texts(strip(root), inc.map(strip), dir);
    Ok(Some(without != *canon))
}

fn g_describe(g: &GCase) -> String {
    let (root, inc) = g_render(g);
    format!(
        "[part G, format line] placement: {}; format {:?} (precision {}); body: {}; {}; commodity of the format amount: {:?} ({})\ncompared with the same ledger with `{}` in the format line through Ledger::balance / transactions / ranged balance / balance converted to USD and: {}\n--- main.ledger ---\n{}{}",
        G_PLACEMENTS[g.placement].0,
        G_STYLES[g.style].0,
        G_STYLES[g.style].1,
        G_BODIES[g.body],
        G_LEDGER_SPELLINGS[g.lsp],
        g.spell.text(),
        g.spell.label(),
        G_CANON,
        G_COMMANDS.iter().map(|(_, a)| format!("okane {}", a.join(" ").replace("{}", "<file>"))).collect::<Vec<_>>().join(" | "),
        root,
        inc.map(|i| format!("--- fmt.ledger ---\n{}", i)).unwrap_or_default()
    )
}

/// Is the alias written in the format line declared above that line?
fn g_alias_declared_above(g: &GCase) -> bool {
    G_PLACEMENTS[g.placement].0 != "same-block-above-its-own-alias-line"
}

fn g_judge(g: &GCase, dir: &Path) -> Outcome {
    let reference = GCase { lsp: 0, spell: GSpell::Canonical, ..*g };
    let canon = g_observe(&reference, dir);
    let health = match g_reference_health(&reference, &canon, dir) {
        Ok(h) => h,
        Err(why) => return Outcome::violation(format!("transparency/format-line/canonical-form-unhealthy/{}", G_BODIES[g.body]), why),
    };
    if *g == reference {
        return match health {
            Some(true) => Outcome::pass(format!("format-line/canonical-form-as-pinned/{}/format-line-is-load-bearing", G_BODIES[g.body])),
            Some(false) => Outcome::dont_care(format!("format-line/canonical-form-as-pinned/{}/format-line-has-no-effect", G_BODIES[g.body])),
            None => Outcome::dont_care("format-line/not-judged/repeated-commodity-block-rejected"),
        };
    }
    let got = g_observe(g, dir);
    let d = g_diff(&canon, &got);
    let judged = match g.spell {
        GSpell::Canonical => true,
        GSpell::Alias(_) => g_alias_declared_above(g),
        _ => false,
    };
    if !judged {
        let why = if matches!(g.spell, GSpell::Alias(_)) { "alias-declared-below-the-format-line" } else { g.spell.label() };
        return Outcome::dont_care(format!("format-line/not-judged/{}/{}", why, if d.is_none() { "same-as-canonical-name" } else { "differs-from-canonical-name" }));
    }
    match d {
        None => Outcome::pass(format!("format-line/transparent/{}/{}", G_BODIES[g.body], g.spell.label())),
        Some((kind, detail)) => {
            let culprit = match g.spell {
                GSpell::Alias(i) => {
                    let fails = |pl: usize, al: usize| -> bool {
                        let x = GCase { placement: pl, spell: GSpell::Alias(al), ..*g };
                        let r = GCase { lsp: 0, spell: GSpell::Canonical, ..x };
                        g_diff(&g_observe(&r, dir), &g_observe(&x, dir)).is_some()
                    };
                    let every_alias = (0..3).all(|al| al == i || fails(g.placement, al));
                    let every_placement = (0..G_PLACEMENTS.len()).filter(|pl| G_PLACEMENTS[*pl].0 != "same-block-above-its-own-alias-line").all(|pl| pl == g.placement || fails(pl, i));
                    format!("{}@{}", if every_alias { "commodity-alias".to_string() } else { format!("commodity-alias({})", g_alias_shape(G_ALIASES[i])) }, if every_placement { "any-placement" } else { G_PLACEMENTS[g.placement].0 })
                }
                _ => "ledger-aliases-only".to_string(),
            };
            Outcome::violation(format!("transparency/format-line/{}/{}", kind, culprit), format!("placement {}, format {:?}, body {}, {}, format amount written {:?}\n{}", G_PLACEMENTS[g.placement].0, G_STYLES[g.style].0, G_BODIES[g.body], G_LEDGER_SPELLINGS[g.lsp], g.spell.text(), detail))
        }
    }
}

fn part_g(ctx: &mut Ctx, dir: &Path) -> u64 {
    let mut n = 0u64;
    let gdir = dir.join(format!("g-{}", ctx.shard));
    std::fs::create_dir_all(&gdir).expect("scratch dir for part G");
    for placement in 0..G_PLACEMENTS.len() {
        for style in 0..G_STYLES.len() {
            for body in 0..G_BODIES.len() {
                for lsp in 0..G_LEDGER_SPELLINGS.len() {
                    for spell in G_SPELLINGS {
                        n += 1;
                        if !ctx.next_is_mine() {
                            ctx.skip_cases(1);
                            continue;
                        }
                        let g = GCase { placement, style, body, lsp, spell };
                        ctx.case(|| g_describe(&g), || g_judge(&g, &gdir));
                    }
                }
            }
        }
    }
    ctx.fact("G_format_line_cases", n);
    ctx.fact("G_placements_x_styles_x_bodies_x_ledger_spellings_x_format_spellings", "7 x 5 x 2 x 2 x 8");
    n
}

fn run(ctx: &mut Ctx) {
    let dir: PathBuf = oka::scratch_dir("c12");
    let path = dir.join(format!("case-{}.ledger", ctx.shard));
    let dpath = dir.join(format!("case-{}.pricedb", ctx.shard));
    let a_states = part_a(ctx, &path);
    let c_states = part_c(ctx, &path, &dpath);
    let d_forms = part_d(ctx, &path);
    let e_cases = part_e(ctx, &path);
    let f_cases = part_f(ctx, &path);
    let g_cases = part_g(ctx, &dir);
    let b_states = part_b(ctx, &path);
    ctx.fact("F_alias_query_cases", f_cases);
    ctx.fact("states", a_states + b_states + c_states + d_forms + e_cases + f_cases + g_cases);
    ctx.fact("C_distinct_ledger_and_price_db_pairs", c_states);
    ctx.fact("A_distinct_ledgers", a_states);
    ctx.fact("B_states_plus_histories", b_states);
    let _ = std::fs::remove_dir_all(&dir);
}
