//! Shared exploration for C02 (assertions) and C03 (inference): alphabet, start states,
//! rendering modes (plain / alias / include), running the real code, parsing its diagnostics.

use std::collections::BTreeMap;

use crate::fw::{Ctx, Outcome};
use crate::oka;
use crate::q::{QMap, Q};
use crate::refledger::{self as rl, Bal, Exp, Prec, State, Txn, P};

pub const ACCTS: [&str; 2] = ["A", "B"];

/// Posting alphabet over accounts {A,B}, commodities {X,Y}; simplest first.
pub fn alphabet() -> Vec<P> {
    let mut v = vec![];
    for acct in ACCTS {
        v.push(P::omitted(acct));
        for c in ["X", "Y"] {
            for val in ["1", "-1", "2", "0"] {
                v.push(P::amt(acct, val, c));
            }
        }
        v.push(P::assign(acct, Bal::Zero));
        for c in ["X", "Y"] {
            for w in ["0", "1", "3", "-1"] {
                v.push(P::assign(acct, Bal::Val(w, c)));
            }
        }
        for c in ["X", "Y"] {
            for val in ["1", "-1"] {
                v.push(P::amt(acct, val, c).with_bal(Bal::Zero));
                for w in ["0", "1", "2", "3", "-1"] {
                    v.push(P::amt(acct, val, c).with_bal(Bal::Val(w, c)));
                }
            }
        }
        // pure check postings: a zero amount carrying an assertion
        v.push(P::amt(acct, "0", "").with_bal(Bal::Val("1", "X")));
        v.push(P::amt(acct, "0", "").with_bal(Bal::Val("0", "X")));
        v.push(P::amt(acct, "0", "").with_bal(Bal::Zero));
        v.push(P::amt(acct, "0", "X").with_bal(Bal::Val("1", "X")));
        v.push(P::amt(acct, "0", "X").with_bal(Bal::Val("2", "X")));
        // balances finer than the asserted figure: `= 0 X` is false for 0.4 X, `= 1 X` is false for 0.6 X
        v.push(P::amt(acct, "0.4", "X"));
        v.push(P::amt(acct, "0.4", "X").with_bal(Bal::Val("0", "X")));
        v.push(P::amt(acct, "0.4", "X").with_bal(Bal::Val("0.4", "X")));
        v.push(P::amt(acct, "0.4", "X").with_bal(Bal::Val("0.40", "X")));
        v.push(P::amt(acct, "0.6", "X").with_bal(Bal::Val("1", "X")));
        v.push(P::amt(acct, "-0.4", "X").with_bal(Bal::Val("1", "X")));
        // a posting carrying BOTH a cost / lot price and an assertion: it balances at its cost, the assertion is about
        // its own commodity
        v.push(P::amt(acct, "1", "X").with_ann(crate::refledger::Ann::Rate("2", "Y")).with_bal(Bal::Val("1", "X")));
        v.push(P::amt(acct, "1", "X").with_ann(crate::refledger::Ann::Rate("2", "Y")).with_bal(Bal::Val("2", "X")));
        v.push(P::amt(acct, "-1", "X").with_ann(crate::refledger::Ann::LotRate("3", "Y")).with_bal(Bal::Val("0", "X")));
        v.push(P::amt(acct, "2", "Y").with_ann(crate::refledger::Ann::Total("3", "X")).with_bal(Bal::Val("2", "Y")));
        // a SALE priced by its total (cost and lot): the counter value keeps the sign of the quantity
        v.push(P::amt(acct, "-2", "X").with_ann(crate::refledger::Ann::Total("4", "Y")));
        v.push(P::amt(acct, "-2", "X").with_ann(crate::refledger::Ann::LotTotal("4", "Y")));
        v.push(P::amt(acct, "1", "X").with_bal(Bal::Val("1", "Y")));
        v.push(P::amt(acct, "1", "X").with_bal(Bal::Val("0", "Y")));
        v.push(P::amt(acct, "-1", "Y").with_bal(Bal::Val("2", "X")));
    }
    v
}

pub fn reduced(full: &[P]) -> Vec<P> {
    full.iter()
        .filter(|p| match (&p.amt, &p.bal) {
            (None, Bal::None) => true,
            (None, Bal::Zero) => true,
            (None, Bal::Val(w, _)) => matches!(*w, "0" | "1" | "3"),
            (Some((v, _)), Bal::None) => matches!(*v, "1" | "-1") || matches!(p.ann, crate::refledger::Ann::Total(..)),
            (Some((v, c)), Bal::Zero) => *v == "1" && *c == "X" || *v == "-1" && *c == "X",
            (Some((v, c)), Bal::Val(w, wc)) if p.ann != crate::refledger::Ann::None => *v == "1" && *c == "X" && *w == "1" && wc == c,
            (Some((v, c)), Bal::Val(w, wc)) => (c == wc && matches!((*v, *w), ("1", "1") | ("1", "2") | ("-1", "0") | ("1", "0") | ("0.4", "0"))) || (c.is_empty() && *w == "1"),
        })
        .cloned()
        .collect()
}

/// Start histories (every transaction here is accepted by the reference by construction).
pub fn start_histories() -> Vec<Vec<Txn>> {
    let e = |v: &'static str, c: &'static str, acct: &'static str| -> Txn { vec![P::amt(acct, v, c), P::omitted("E")] };
    vec![
        vec![],
        vec![e("1", "X", "A")],
        vec![e("-1", "X", "A")],
        vec![e("1", "X", "A"), e("2", "Y", "A")],
        vec![e("1", "X", "A"), e("-1", "X", "A")],
        vec![e("1", "X", "B")],
        vec![e("2", "X", "A"), e("1", "Y", "B")],
        vec![e("1", "Y", "A"), e("3", "X", "B"), e("-1", "Y", "B")],
        // A holds three, and four, commodities ("several" is not only "two")
        vec![e("1", "X", "A"), e("2", "Y", "A"), e("3", "Z", "A")],
        vec![e("1", "X", "A"), e("2", "Y", "A"), e("3", "Z", "A"), e("-4", "W", "A")],
    ]
}

#[derive(Clone, Copy, Debug, PartialEq, Eq)]
pub enum Mode {
    Plain,
    /// account A is declared with alias `a`, account B with alias `b b`; the last transaction writes the aliases
    Alias,
    /// the start history lives in an included file
    Include,
    /// the plain rendering with CRLF line ends
    Crlf,
    /// after the start history (which has used X already) X is declared with a note and, after it, the alias `xx`;
    /// the judged transaction writes `xx` wherever it means X
    ComAlias,
    /// after the start history (which has used account A already) A is declared with the alias `aa`; the judged
    /// transaction writes `aa` for A
    AcctAliasLate,
}

pub struct Case {
    pub files: Vec<(String, String)>,
    pub txn_first: usize,
    pub txn_last: usize,
    pub posting_lines: Vec<usize>,
    pub desc: String,
    /// the history (not the judged transaction) contains an assertion after an omitted posting on the same account
    pub hist_has_assert_after_omitted: bool,
}

pub fn build(mode: Mode, hist: &[Txn], txn: &Txn) -> Case {
    let root = oka::ROOT.to_string();
    let hist_has_assert_after_omitted = hist.iter().any(|t| rl::omitted_then_constraint_same_account(t) == Some("assert"));
    match mode {
        Mode::Plain | Mode::Alias | Mode::Crlf => {
            let header = if mode == Mode::Alias { "account A\n  alias a\n  note the main account\n  alias a2\n\naccount B\n  alias b b\n\n".to_string() } else { String::new() };
            let mut all: Vec<Txn> = hist.to_vec();
            all.push(txn.clone());
            let last = all.len() - 1;
            let r = rl::render(&header, &all, &|ti, pi, a| {
                if mode == Mode::Alias && ti == last {
                    match a {
                        // the first alias on even posting positions, the second (declared after a note line) on odd ones
                        "A" => (if pi % 2 == 0 { "a" } else { "a2" }).to_string(),
                        "B" => "b b".to_string(),
                        o => o.to_string(),
                    }
                } else {
                    a.to_string()
                }
            });
            let (f, l) = *r.txn_lines.last().unwrap();
            let text = if mode == Mode::Crlf { r.text.replace('\n', "\r\n") } else { r.text.clone() };
            Case { desc: r.text.clone(), files: vec![(root, text)], txn_first: f, txn_last: l, posting_lines: r.posting_lines.last().unwrap().clone(), hist_has_assert_after_omitted }
        }
        Mode::AcctAliasLate => {
            let h = rl::render("", hist, &|_, _, a| a.to_string());
            let header = format!("{}account A\n  alias aa\n\naccount B\n\n", h.text);
            let t = rl::render(&header, std::slice::from_ref(txn), &|_, _, a| if a == "A" { "aa".to_string() } else { a.to_string() });
            let (f, l) = t.txn_lines[0];
            Case { desc: t.text.clone(), files: vec![(root, t.text)], txn_first: f, txn_last: l, posting_lines: t.posting_lines[0].clone(), hist_has_assert_after_omitted }
        }
        Mode::ComAlias => {
            let h = rl::render("", hist, &|_, _, a| a.to_string());
            let header = format!("{}commodity X\n  note declared late\n  alias xx\n\n", h.text);
            let t = rl::render(&header, std::slice::from_ref(txn), &|_, _, a| a.to_string());
            let (head, tail) = t.text.split_at(header.len());
            let b: Vec<char> = tail.chars().collect();
            let mut out = String::from(head);
            for (i, c) in b.iter().enumerate() {
                let before_ok = i > 0 && b[i - 1] == ' ';
                let after_ok = i + 1 >= b.len() || matches!(b[i + 1], ' ' | '\n' | '}' | ')');
                if *c == 'X' && before_ok && after_ok {
                    out.push_str("xx");
                } else {
                    out.push(*c);
                }
            }
            let (f, l) = t.txn_lines[0];
            Case { desc: out.clone(), files: vec![(root, out)], txn_first: f, txn_last: l, posting_lines: t.posting_lines[0].clone(), hist_has_assert_after_omitted }
        }
        Mode::Include => {
            let h = rl::render("", hist, &|_, _, a| a.to_string());
            // (multi-byte text before the judged transaction: a line count taken in characters instead of bytes, or the
            // other way round, puts the diagnostic on the wrong line)
            let t = rl::render("; main file \u{65e5}\u{672c}\u{8a9e}\u{306e}\u{30b3}\u{30e1}\u{30f3}\u{30c8} \u{e9}\u{e9}\u{e9} \u{1f600}\u{1f600}\n; \u{4e8c}\u{884c}\u{76ee}\u{3001}\u{4e09}\u{884c}\u{76ee}\u{3001}\u{56db}\u{884c}\u{76ee}\u{3001}\u{4e94}\u{884c}\u{76ee}\ninclude sub/hist.ledger\n\n", std::slice::from_ref(txn), &|_, _, a| a.to_string());
            let (f, l) = t.txn_lines[0];
            let desc = format!("== {} ==\n{}== /v/sub/hist.ledger ==\n{}", oka::ROOT, t.text, h.text);
            Case { desc, files: vec![(root, t.text), ("/v/sub/hist.ledger".to_string(), h.text)], txn_first: f, txn_last: l, posting_lines: t.posting_lines[0].clone(), hist_has_assert_after_omitted }
        }
    }
}

pub fn ref_state(hist: &[Txn]) -> State {
    let prec = Prec::new();
    let mut st = State::default();
    for h in hist {
        match rl::step(&st, &prec, h) {
            Exp::Accept { next, .. } => st = next,
            other => panic!("harness bug: start history not accepted by reference: {:?}", other),
        }
    }
    st
}

pub struct Got {
    pub result: Result<(oka::Balances, Vec<oka::TxnView>), oka::ErrView>,
}

pub fn run_real(case: &Case) -> Got {
    let files: Vec<(&str, &str)> = case.files.iter().map(|(p, t)| (p.as_str(), t.as_str())).collect();
    let result = oka::with_ledger(&files, oka::ROOT, None, |r| match r {
        Ok((l, ctx)) => {
            let tv = oka::txn_views(l);
            let b = l.balance(ctx, &okane_core::report::query::BalanceQuery::default()).expect("default balance");
            Ok((oka::clean_balances(&oka::balance_to_map(&b)), tv))
        }
        Err(e) => Err(e),
    });
    Got { result }
}

/// Parse the "computed balance is ..." part of a BalanceAssertionFailure message.
pub fn parse_computed(rendered: &str) -> Option<QMap> {
    let first = rendered.lines().next()?;
    let pos = first.find("computed balance is ")?;
    parse_inline_amount(first[pos + "computed balance is ".len()..].trim())
}

pub fn parse_inline_amount(s: &str) -> Option<QMap> {
    let mut m = QMap::new();
    if s == "0" {
        return Some(m);
    }
    let inner = s.strip_prefix('(').and_then(|x| x.strip_suffix(')')).unwrap_or(s);
    for part in inner.split(" + ") {
        let (v, c) = part.trim().split_once(' ')?;
        let d: rust_decimal::Decimal = v.parse().ok()?;
        m.insert(c.to_string(), Q::from_decimal(d));
    }
    Some(m)
}

pub fn clean(m: &QMap) -> QMap {
    m.iter().filter(|(_, v)| !v.is_zero()).map(|(c, v)| (c.clone(), *v)).collect()
}

/// Compare an accepted real result with the reference's (amounts, next state).
pub fn compare_accept(amounts: &[QMap], next: &State, bal: &oka::Balances, txns: &[oka::TxnView], n_hist: usize) -> Option<Outcome> {
    if *bal != next.bal {
        return Some(Outcome::violation("accepted-but-balances-differ", format!("expected balances {:?}\nobserved {:?}", next.bal, bal)));
    }
    let t = txns.get(n_hist)?;
    for (i, p) in t.postings.iter().enumerate() {
        let a = clean(&p.amount);
        if a != amounts[i] {
            return Some(Outcome::violation("accepted-but-posting-amount-differs", format!("posting {} expected {} observed {}", i, crate::q::qmap_show(&amounts[i]), crate::q::qmap_show(&a))));
        }
    }
    None
}

/// Enumerate the depth-1 space: every transaction of 1..=3 postings from every start state
/// (x rendering modes for <= 2 postings), restricted by `relevant`.
pub fn enumerate_depth1(ctx: &mut Ctx, relevant: &dyn Fn(&Txn) -> bool, judge: &dyn Fn(&Case, &State, &Txn, usize) -> Outcome) {
    let full = alphabet();
    let red = reduced(&full);
    ctx.fact("posting_alphabet", full.len() as u64);
    ctx.fact("posting_alphabet_reduced", red.len() as u64);
    let hists = start_histories();
    let states: Vec<State> = hists.iter().map(|h| ref_state(h)).collect();
    let a3: &[P] = if ctx.tier == crate::fw::Tier::Quick { &red } else { &full };
    let mut emit = |ctx: &mut Ctx, mode: Mode, hi: usize, txn: Txn| {
        if !relevant(&txn) {
            return;
        }
        if !ctx.next_is_mine() {
            ctx.skip_cases(1);
            return;
        }
        let case = build(mode, &hists[hi], &txn);
        let st = &states[hi];
        let n_hist = hists[hi].len();
        ctx.case(|| format!("[mode {:?}]\n{}", mode, case.desc), || judge(&case, st, &txn, n_hist));
    };
    for mode in [Mode::Plain, Mode::Alias, Mode::Include, Mode::Crlf, Mode::ComAlias, Mode::AcctAliasLate] {
        for hi in 0..hists.len() {
            for a in &full {
                emit(ctx, mode, hi, vec![a.clone()]);
            }
            for a in &full {
                for b in &full {
                    emit(ctx, mode, hi, vec![a.clone(), b.clone()]);
                }
            }
        }
    }
    for hi in 0..hists.len() {
        for a in a3 {
            for b in a3 {
                for c in a3 {
                    emit(ctx, Mode::Plain, hi, vec![a.clone(), b.clone(), c.clone()]);
                }
            }
        }
    }
    if ctx.tier == crate::fw::Tier::Thorough {
        // 4 postings over the reduced alphabet from three start states
        for hi in [0usize, 3, 6] {
            for a in &red {
                for b in &red {
                    for c in &red {
                        for d in &red {
                            emit(ctx, Mode::Plain, hi, vec![a.clone(), b.clone(), c.clone(), d.clone()]);
                        }
                    }
                }
            }
        }
    }
}

/// The 27-transaction alphabet of the history search (engine b).
pub fn txn_alphabet() -> Vec<Txn> {
    let a = |v, c| P::amt("A", v, c);
    let b = |v, c| P::amt("B", v, c);
    vec![
        vec![a("1", "X"), P::omitted("E")],
        vec![a("-1", "X"), P::omitted("E")],
        vec![a("2", "Y"), P::omitted("E")],
        vec![b("1", "X"), P::omitted("E")],
        vec![b("-1", "Y"), P::omitted("E")],
        vec![a("1", "X"), b("-1", "X")],
        vec![a("1", "X").with_bal(Bal::Val("1", "X")), P::omitted("E")],
        vec![a("1", "X").with_bal(Bal::Val("2", "X")), P::omitted("E")],
        vec![a("-1", "X").with_bal(Bal::Zero), P::omitted("E")],
        vec![a("-1", "X").with_bal(Bal::Val("0", "X")), P::omitted("E")],
        // assertion after an assignment
        vec![P::assign("A", Bal::Val("3", "X")), a("1", "X").with_bal(Bal::Val("4", "X")), P::omitted("E")],
        // assignment alone, balanced by an omitted posting
        vec![P::assign("A", Bal::Val("1", "X")), P::omitted("E")],
        vec![P::assign("A", Bal::Zero), P::omitted("E")],
        vec![P::assign("B", Bal::Val("0", "Y")), P::omitted("E")],
        // assertion after an inferred posting on another account
        vec![P::omitted("B"), a("1", "X").with_bal(Bal::Val("1", "X"))],
        // assertion after an inferred posting on the same account (file order!)
        vec![P::omitted("A"), a("1", "X").with_bal(Bal::Val("1", "X")), b("2", "X")],
        vec![P::omitted("A"), a("1", "X").with_bal(Bal::Val("-1", "X")), b("1", "X")],
        // twice on one account in one transaction
        vec![a("1", "X").with_bal(Bal::Val("1", "X")), a("1", "X").with_bal(Bal::Val("2", "X")), P::omitted("E")],
        vec![a("1", "X").with_bal(Bal::Val("2", "X")), a("-1", "X").with_bal(Bal::Val("1", "X")), P::omitted("E")],
        // two-commodity account
        vec![a("1", "Y").with_bal(Bal::Val("1", "X")), P::omitted("E")],
        vec![a("1", "Y").with_bal(Bal::Zero), P::omitted("E")],
        // = 0 on a possibly non-empty account, assignment to zero of one commodity
        vec![P::assign("A", Bal::Val("0", "X")), P::omitted("E")],
        vec![b("1", "Y").with_bal(Bal::Val("1", "Y")), a("-1", "Y")],
        vec![P::assign("B", Bal::Val("2", "X")), a("-1", "X").with_bal(Bal::Val("0", "X")), P::omitted("E")],
        // an inferred posting whose siblings leave a zero-valued commodity next to a non-zero one: the account must
        // hold the non-zero commodity only (a following bare `= 0` is a single-commodity assignment)
        vec![b("0", "X"), b("2", "Y"), P::omitted("A")],
        vec![a("0", "Y"), a("1", "X"), P::omitted("B")],
        vec![P::assign("B", Bal::Zero), P::omitted("E")],
    ]
}

/// History search: BFS over reference states; each edge is a case.
pub fn enumerate_history(ctx: &mut Ctx, depth: usize, judge: &dyn Fn(&Case, &State, &Txn, usize) -> Outcome) {
    let alpha = txn_alphabet();
    let prec = Prec::new();
    let mut edge_list: Vec<(Vec<usize>, State, usize)> = vec![];
    let b = crate::bfs::bfs(
        State::default(),
        depth,
        alpha.len(),
        |s, a| match rl::step(s, &prec, &alpha[a]) {
            Exp::Accept { next, .. } => Some(next),
            _ => None,
        },
        |hist, s, a, _| edge_list.push((hist.to_vec(), s.clone(), a)),
    );
    ctx.fact("bfs_states", b.states.len() as u64);
    ctx.fact("bfs_edges", b.edges);
    ctx.fact("bfs_max_depth", b.max_depth as u64);
    let _ = BTreeMap::<u8, u8>::new();
    for (hist, st, a) in edge_list {
        if !ctx.next_is_mine() {
            ctx.skip_cases(1);
            continue;
        }
        let h: Vec<Txn> = hist.iter().map(|i| alpha[*i].clone()).collect();
        let case = build(Mode::Plain, &h, &alpha[a]);
        let n_hist = h.len();
        ctx.count("bfs_edges_executed", 1);
        ctx.case(|| format!("[history search, depth {}]\n{}", n_hist, case.desc), || judge(&case, &st, &alpha[a], n_hist));
    }
}
