//! C19 — formatted postings are laid out in aligned columns.
//!
//! Every case is one complete ledger text. It is pushed through the real `okane::format::format`
//! (= `okane_core::format::FormatOptions::format`: parse -> `DisplayContext::as_display`), and the
//! *output text* is judged by `RefLayout`, a reference that knows the input structure (which account,
//! which clear mark, which number literal, which commodity, which tail) and re-derives the columns
//! from the property statement with its OWN display-width function (ASCII = 1, the wide alphabet
//! below = 2). The reference never looks at okane's arithmetic.
//!
//! Families (all exhaustive products, deterministic order; A = accounts of every display width
//! 1..=60 (thorough ..=70): ASCII, ASCII with an inner space, wide only, ASCII+wide; M = {none,*,!};
//! N = every (digit count 1..=14, scale 0..=4, sign, grouping) literal + {0, 0.5, -0.05, 0.00}
//! (thorough: 20 digits, scale 6)):
//!  1. amount, no tail    A x M x N x 8 amount kinds (plain USD/$/円/bare, `(N C * 2)`, `(2 * N C)`)
//!  2. amount with tail   A x M x N' x 8 kinds x 5 lots x 3 costs x {no assertion, assertion}
//!                        (N' = 8 number shapes in quick, N in thorough)
//!  3. assertion-only     A x M x N x commodity {none,$,USD,円}  (+ expression assertions, `=` column not judged)
//!  4. bare postings      A x M
//!  5. ledger structure   all sequences of <= 3 entries over 10 entry kinds x input separators
//!                        {none, 1 blank line, 3 blank lines} x {LF, CRLF}
//!
//! Clauses of the statement -> oracle:
//!  (a) posting lines and metadata lines start with exactly four spaces          -> `indent/..`
//!  (b) >= 2 spaces between the account and what follows it                      -> `account-gap/..`
//!  (c) if 4 + mark + account + 2 + number <= 52, the number ends in column 52   -> `amount-column/..`
//!  (d) assertion-only: `=` in column 54 + width(" commodity") if two spaces fit -> `assertion-column/..`
//!  (e) exactly one blank line between entries                                   -> `entry-separation/..`
//!  (f) (borrowed from C05(2), DESIGN 2.4) the formatted text re-parses to the same posting
//!      skeleton (account, mark, has-amount, has-assertion)                      -> `reparse/..`

use okane_core::parse::{parse_ledger, ParseOptions};
use okane_core::syntax::{self, plain};

use crate::fw::{CheckDef, Ctx, Outcome};

pub const DEF: CheckDef = CheckDef {
    id: "C19",
    run,
    technique: "bounded-exhaustive product of account widths (ASCII / wide / mixed, with and without clear mark) x number shapes (digit count, scale, sign, grouping) x amount kinds x lot/cost/assertion tails, plus all entry sequences of length <= 3; every input is formatted by the real okane formatter and the output columns are judged by an independent layout reference",
    rule: "case = one ledger text; states = distinct inputs executed; transitions = real format() executions judged by RefLayout; a case is non-trivial (MUST) when the statement fixes the layout: indentation, account gap, column 52 of the numeric part when it fits, `=` column of assertion-only postings with a plain amount, blank lines between entries",
    assumptions: &[
        "display width is judged with the harness' own function on the alphabet ASCII + {資産銀行カードあいＡ１円}: ASCII = 1 column, the others = 2 (no ambiguous-width characters are generated)",
        "for parenthesised amounts the 'numeric part' is the first commodity-bearing number (anchor: fmt_with_alignment); assertion-only postings whose assertion is an expression are DON'T-CARE for the `=` column",
        "'short enough' means 4 + mark + account + 2 + (text up to the end of the number) <= 52; longer lines only owe the two-space gap",
        "blank lines before the first and after the last entry are not judged",
    ],
    shards: 64,
    hang_s: 20,
    single_worker: false,
};

// ------------------------------------------------------------------------------------------------
// own display width

const WIDE: [char; 12] = ['資', '産', '銀', '行', 'カ', 'ー', 'ド', 'あ', 'い', 'Ａ', '１', '円'];

fn cw(c: char) -> Option<usize> {
    if (' '..='~').contains(&c) {
        Some(1)
    } else if WIDE.contains(&c) {
        Some(2)
    } else {
        None
    }
}

/// Display width of `s`; None if it contains a character outside the alphabet (tab, control, ...).
fn width(s: &str) -> Option<usize> {
    let mut w = 0;
    for c in s.chars() {
        w += cw(c)?;
    }
    Some(w)
}

fn shape_of(s: &str) -> &'static str {
    let a = s.chars().any(|c| c.is_ascii());
    let w = s.chars().any(|c| !c.is_ascii());
    match (a, w) {
        (true, false) => "ascii",
        (false, true) => "wide",
        _ => "mixed",
    }
}

// ------------------------------------------------------------------------------------------------
// case model

#[derive(Clone, Copy, PartialEq, Debug)]
enum Kind {
    Plain,
    /// `(N C * 2)`
    ParenFirst,
    /// `(2 * N C)`
    ParenSecond,
    /// `(<prefix>N C)` with a prefix of commodity-less operands, e.g. `(1200 + 300 + N C)`, `(3 * 2 * N C)`: the numeric
    /// part of the amount is the first number that carries the commodity
    Chain(&'static str),
}
impl Kind {
    fn name(self) -> &'static str {
        match self {
            Kind::Plain => "plain",
            Kind::ParenFirst => "paren-first",
            Kind::ParenSecond => "paren-second",
            Kind::Chain(_) => "paren-chain",
        }
    }
}

#[derive(Clone, Debug)]
struct Amt {
    kind: Kind,
    num: String,
    com: &'static str,
}
impl Amt {
    fn text(&self) -> String {
        let a = if self.com.is_empty() { self.num.clone() } else { format!("{} {}", self.num, self.com) };
        match self.kind {
            Kind::Plain => a,
            Kind::ParenFirst => format!("({} * 2)", a),
            Kind::ParenSecond => format!("(2 * {})", a),
            Kind::Chain(prefix) => format!("({}{})", prefix, a),
        }
    }
    fn com_class(&self) -> &'static str {
        if self.com.is_empty() {
            "bare"
        } else if self.com.is_ascii() {
            "ascii"
        } else {
            "wide"
        }
    }
}

#[derive(Clone, Debug)]
struct Post {
    /// "", "*" or "!"
    mark: &'static str,
    account: String,
    amount: Option<Amt>,
    /// literal text following the amount, e.g. " {1.5 USD}"
    lot: &'static str,
    /// e.g. " @ 1.1 EUR"
    cost: &'static str,
    balance: Option<Amt>,
    meta: &'static [&'static str],
}
impl Post {
    fn new(mark: &'static str, account: String) -> Post {
        Post { mark, account, amount: None, lot: "", cost: "", balance: None, meta: &[] }
    }
    /// input rendering: deliberately NOT in canonical layout (1-space indent, 2-space gap)
    fn render(&self, out: &mut String) {
        out.push(' ');
        if !self.mark.is_empty() {
            out.push_str(self.mark);
            out.push(' ');
        }
        out.push_str(&self.account);
        if let Some(a) = &self.amount {
            out.push_str("  ");
            out.push_str(&a.text());
            out.push_str(self.lot);
            out.push_str(self.cost);
            if let Some(b) = &self.balance {
                out.push_str(" = ");
                out.push_str(&b.text());
            }
        } else if let Some(b) = &self.balance {
            out.push_str("  = ");
            out.push_str(&b.text());
        }
        out.push('\n');
        for m in self.meta {
            out.push_str("  ; ");
            out.push_str(m);
            out.push('\n');
        }
    }
}

#[derive(Clone, Debug)]
enum Entry {
    Txn { head: &'static str, head_meta: &'static [&'static str], posts: Vec<Post> },
    /// `text` is the complete input text, `first` the expected beginning of the first output line
    Other { kind: &'static str, text: &'static str, first: &'static str },
}
impl Entry {
    fn kind(&self) -> &'static str {
        match self {
            Entry::Txn { .. } => "txn",
            Entry::Other { kind, .. } => kind,
        }
    }
    fn first(&self) -> &str {
        match self {
            Entry::Txn { head, .. } => &head[..10],
            Entry::Other { first, .. } => first,
        }
    }
    fn render(&self, out: &mut String) {
        match self {
            Entry::Txn { head, head_meta, posts } => {
                out.push_str(head);
                out.push('\n');
                for m in *head_meta {
                    out.push_str(" ; ");
                    out.push_str(m);
                    out.push('\n');
                }
                for p in posts {
                    p.render(out);
                }
            }
            Entry::Other { text, .. } => out.push_str(text),
        }
    }
}

fn render(entries: &[Entry], seps: &[&str]) -> String {
    let mut s = String::new();
    for (i, e) in entries.iter().enumerate() {
        if i > 0 {
            s.push_str(seps[i - 1]);
        }
        e.render(&mut s);
    }
    s
}

// ------------------------------------------------------------------------------------------------
// RefLayout

enum J {
    Pass(String),
    DontCare(String),
    Viol(String, String),
}

fn numeric_run(s: &str) -> usize {
    s.bytes().take_while(|b| b.is_ascii_digit() || *b == b'.' || *b == b',' || *b == b'-').count()
}

/// Judge one posting line of the output against the posting that was written in the input.
fn judge_post(p: &Post, line: &str) -> J {
    let shape = shape_of(&p.account);
    let markc = if p.mark.is_empty() { "nomark" } else { "mark" };
    let indent = line.bytes().take_while(|b| *b == b' ').count();
    if indent != 4 {
        return J::Viol(format!("indent/posting/{}-spaces", indent.min(9)), format!("posting line {:?} is indented by {} spaces, not 4", line, indent));
    }
    let rest = &line[4..];
    // clear mark, then the account, verbatim
    let mut pos = 0usize;
    if !p.mark.is_empty() {
        if !rest.starts_with(p.mark) {
            return J::Viol("posting/mark-missing".into(), format!("posting line {:?} does not start with the clear mark {:?}", line, p.mark));
        }
        pos += p.mark.len();
        pos += rest[pos..].bytes().take_while(|b| *b == b' ').count();
    }
    if !rest[pos..].starts_with(p.account.as_str()) {
        return J::Viol("posting/account-missing".into(), format!("posting line {:?} does not show the account {:?} after the indentation", line, p.account));
    }
    let acc_end = pos + p.account.len();
    let left_w = match width(&rest[..acc_end]) {
        Some(w) => 4 + w,
        None => return J::Viol("output/char-outside-alphabet".into(), format!("posting line {:?}", line)),
    };
    let after = &rest[acc_end..];
    if p.amount.is_none() && p.balance.is_none() {
        return if after.trim_end().is_empty() { J::Pass(format!("bare-posting/{}/{}", shape, markc)) } else { J::DontCare("bare-posting/with-tail".into()) };
    }
    let gap = after.bytes().take_while(|b| *b == b' ').count();
    let t = &after[gap..];
    if width(t).is_none() {
        return J::Viol("output/char-outside-alphabet".into(), format!("posting line {:?}", line));
    }
    match (&p.amount, &p.balance) {
        (Some(a), _) => {
            // locate the numeric part
            let (nstart, nend) = match a.kind {
                Kind::Plain => (0, numeric_run(t)),
                Kind::ParenFirst => {
                    if !t.starts_with('(') {
                        return J::DontCare("amount/expression-shape-not-recognised".into());
                    }
                    (1, 1 + numeric_run(&t[1..]))
                }
                Kind::ParenSecond => {
                    if !t.starts_with('(') {
                        return J::DontCare("amount/expression-shape-not-recognised".into());
                    }
                    let n1 = numeric_run(&t[1..]);
                    let p2 = 1 + n1;
                    if n1 == 0 || !t[p2..].starts_with(" * ") {
                        return J::DontCare("amount/expression-shape-not-recognised".into());
                    }
                    (p2 + 3, p2 + 3 + numeric_run(&t[p2 + 3..]))
                }
                Kind::Chain(prefix) => {
                    if !t.starts_with('(') || !t[1..].starts_with(prefix) {
                        return J::DontCare("amount/expression-shape-not-recognised".into());
                    }
                    (1 + prefix.len(), 1 + prefix.len() + numeric_run(&t[1 + prefix.len()..]))
                }
            };
            if nend == nstart {
                return J::Viol(format!("amount/no-numeric-part/{}", a.kind.name()), format!("posting line {:?}: no number where the amount {:?} should be", line, a.text()));
            }
            let prefix_w = nend; // ASCII only up to here: '(' digits operators spaces
            let fits = left_w + 2 + prefix_w <= 52;
            if gap < 2 {
                return J::Viol(
                    format!("account-gap/{}-space/amount/{}", gap, if fits { "fits" } else { "overflow" }),
                    format!("posting line {:?}: only {} space(s) between the account and the amount", line, gap),
                );
            }
            let col_end = left_w + gap + prefix_w;
            let tail = if p.lot.is_empty() && p.cost.is_empty() && p.balance.is_none() { "" } else { "+tail" };
            if fits {
                if col_end != 52 {
                    return J::Viol(
                        format!("amount-column/{}/{}/{}", a.kind.name(), shape, markc),
                        format!("posting line {:?}: the numeric part ends in display column {}, not 52 (account+mark occupy columns 5..{}, {} columns up to the end of the number)", line, col_end, left_w, prefix_w),
                    );
                }
                let tight = if left_w + 2 + prefix_w == 52 { "tight" } else { "roomy" };
                J::Pass(format!("aligned52/{}/{}/{}{}", tight, a.kind.name(), shape, tail))
            } else {
                J::Pass(format!("overflow/{}/gap{}/{}{}", a.kind.name(), if gap == 2 { "=2" } else { ">2" }, shape, tail))
            }
        }
        (None, Some(b)) => {
            let exp = 54 + if b.com.is_empty() { 0 } else { 1 + width(b.com).expect("harness bug: commodity outside alphabet") };
            let room = left_w + 2 < exp;
            if gap < 2 {
                // what does the parser make of this line?
                return J::Viol(
                    format!("account-gap/{}-space/assertion-only/{}", gap, if room && b.kind == Kind::Plain { "room" } else { "no-room" }),
                    format!("posting line {:?}: only {} space(s) between the account (display columns 5..{}) and `=`", line, gap, left_w),
                );
            }
            if !t.starts_with('=') {
                return J::Viol("assertion/no-equal-sign".into(), format!("posting line {:?}: `=` expected after the account", line));
            }
            if b.kind != Kind::Plain {
                // "where it would be after an amount in that commodity": after an amount written as this very expression
                // the aligned number ends in column 52, the rest of the expression follows, then a blank and `=`.
                let e = t[1..].trim_start();
                let (nstart, nend) = match b.kind {
                    Kind::ParenFirst if e.starts_with('(') => (1, 1 + numeric_run(&e[1..])),
                    Kind::ParenSecond if e.starts_with('(') => {
                        let n1 = numeric_run(&e[1..]);
                        let p2 = 1 + n1;
                        if n1 == 0 || !e[p2..].starts_with(" * ") {
                            return J::DontCare(format!("assertion-only/expression-shape-not-recognised/{}", b.kind.name()));
                        }
                        (p2 + 3, p2 + 3 + numeric_run(&e[p2 + 3..]))
                    }
                    Kind::Chain(prefix) if e.starts_with('(') && e[1..].starts_with(prefix) => (1 + prefix.len(), 1 + prefix.len() + numeric_run(&e[1 + prefix.len()..])),
                    _ => return J::DontCare(format!("assertion-only/expression-shape-not-recognised/{}", b.kind.name())),
                };
                if nend == nstart {
                    return J::DontCare(format!("assertion-only/expression-shape-not-recognised/{}", b.kind.name()));
                }
                let trail_w = match width(&e[nend..]) {
                    Some(w) => w,
                    None => return J::Viol("output/char-outside-alphabet".into(), format!("posting line {:?}", line)),
                };
                let exp_e = 54 + trail_w;
                let eq_col = left_w + gap + 1;
                return if left_w + 2 < exp_e {
                    if eq_col != exp_e {
                        J::Viol(
                            format!("assertion-column/expression/{}/{}/{}", b.kind.name(), shape, markc),
                            format!("posting line {:?}: `=` is in display column {}, but after the amount {:?} (number ending in column 52) it would be in column {}", line, eq_col, e, exp_e),
                        )
                    } else {
                        J::Pass(format!("eq-aligned/expression/{}/{}", b.kind.name(), shape))
                    }
                } else {
                    J::Pass(format!("eq-overflow/expression/gap{}/{}", if gap == 2 { "=2" } else { ">2" }, shape))
                };
            }
            let eq_col = left_w + gap + 1;
            if room {
                if eq_col != exp {
                    return J::Viol(
                        format!("assertion-column/com-{}/{}/{}", b.com_class(), shape, markc),
                        format!("posting line {:?}: `=` is in display column {}, but after an amount in {:?} it would be in column {}", line, eq_col, b.com, exp),
                    );
                }
                let tight = if left_w + 3 == exp { "tight" } else { "roomy" };
                J::Pass(format!("eq-aligned/{}/com-{}/{}", tight, b.com_class(), shape))
            } else {
                J::Pass(format!("eq-overflow/gap{}/com-{}/{}", if gap == 2 { "=2" } else { ">2" }, b.com_class(), shape))
            }
        }
        (None, None) => unreachable!(),
    }
}

fn clear_of(m: &str) -> syntax::ClearState {
    match m {
        "*" => syntax::ClearState::Cleared,
        "!" => syntax::ClearState::Pending,
        _ => syntax::ClearState::Uncleared,
    }
}

/// Clause (f): the formatted text must read back to the same posting skeleton.
fn judge_reparse(entries: &[Entry], out: &str) -> Option<(String, String)> {
    let parsed: Result<Vec<plain::LedgerEntry<'_>>, String> = parse_ledger::<plain::Ident>(&ParseOptions::default(), out).map(|r| r.map(|(_, e)| e).map_err(|e| e.to_string())).collect();
    let parsed = match parsed {
        Ok(p) => p,
        Err(e) => return Some(("reparse/rejected".into(), format!("the formatted text does not parse: {}", e.lines().next().unwrap_or("")))),
    };
    if parsed.len() != entries.len() {
        return Some(("reparse/entry-count".into(), format!("{} entries were formatted, {} are read back", entries.len(), parsed.len())));
    }
    for (e, g) in entries.iter().zip(parsed.iter()) {
        match (e, g) {
            (Entry::Txn { posts, .. }, syntax::LedgerEntry::Txn(t)) => {
                if t.posts.len() != posts.len() {
                    return Some(("reparse/posting-count".into(), format!("{} postings were formatted, {} are read back", posts.len(), t.posts.len())));
                }
                for (p, gp) in posts.iter().zip(t.posts.iter()) {
                    if gp.account.as_ref() != p.account.as_str() {
                        return Some(("reparse/account-changed".into(), format!("account {:?} reads back as {:?}", p.account, gp.account)));
                    }
                    if gp.clear_state != clear_of(p.mark) {
                        return Some(("reparse/clear-mark-changed".into(), format!("posting of {:?}: mark {:?} reads back as {:?}", p.account, p.mark, gp.clear_state)));
                    }
                    if gp.amount.is_some() != p.amount.is_some() || gp.balance.is_some() != p.balance.is_some() {
                        return Some(("reparse/amount-or-assertion-lost".into(), format!("posting of {:?}: amount/assertion presence changed on re-reading", p.account)));
                    }
                }
            }
            (Entry::Other { kind, .. }, g) => {
                let ok = matches!(
                    (*kind, g),
                    ("comment", syntax::LedgerEntry::Comment(_)) | ("account", syntax::LedgerEntry::Account(_)) | ("commodity", syntax::LedgerEntry::Commodity(_)) | ("apply", syntax::LedgerEntry::ApplyTag(_)) | ("end", syntax::LedgerEntry::EndApplyTag) | ("include", syntax::LedgerEntry::Include(_))
                );
                if !ok {
                    return Some(("reparse/entry-kind-changed".into(), format!("a {} entry reads back as a different kind of entry", kind)));
                }
                // a directive reads back with the same sub-directives (alias / note / comment / format lines, in order)
                if matches!(*kind, "account" | "commodity") {
                    if let Entry::Other { text, .. } = e {
                        let src: Result<Vec<plain::LedgerEntry<'_>>, String> = parse_ledger::<plain::Ident>(&ParseOptions::default(), text).map(|r| r.map(|(_, e)| e).map_err(|e| e.to_string())).collect();
                        match src {
                            Ok(v) if v.len() == 1 => {
                                if v[0] != *g {
                                    return Some((format!("reparse/sub-directives-changed/{}", kind), format!("the {} directive reads back as {:?}, it was written as {:?}", kind, g, v[0])));
                                }
                            }
                            other => panic!("harness bug: directive of the alphabet does not parse alone: {:?}", other),
                        }
                    }
                }
            }
            _ => return Some(("reparse/entry-kind-changed".into(), "a transaction reads back as a different kind of entry".into())),
        }
    }
    None
}

/// Judge the whole formatted text.
fn judge(entries: &[Entry], out: &str) -> Outcome {
    // blocks = maximal runs of non-empty lines; blanks[i] = number of empty lines before block i
    let mut blocks: Vec<Vec<&str>> = vec![];
    let mut blanks: Vec<usize> = vec![];
    let mut cur: Vec<&str> = vec![];
    let mut nblank = 0usize;
    let mut lines: Vec<&str> = out.split('\n').collect();
    if lines.last() == Some(&"") {
        lines.pop(); // the text ended with '\n'
    }
    for l in lines {
        if l.is_empty() {
            if !cur.is_empty() {
                blocks.push(std::mem::take(&mut cur));
            }
            nblank += 1;
        } else {
            if cur.is_empty() {
                blanks.push(nblank);
            }
            nblank = 0;
            cur.push(l);
        }
    }
    if !cur.is_empty() {
        blocks.push(cur);
    }
    // (e) entry separation
    for i in 0..entries.len().max(blocks.len()) {
        let prev = if i == 0 { "start" } else { entries.get(i - 1).map(|e| e.kind()).unwrap_or("none") };
        let this = entries.get(i).map(|e| e.kind()).unwrap_or("none");
        match (entries.get(i), blocks.get(i)) {
            (Some(e), Some(b)) => {
                if !b[0].starts_with(e.first()) {
                    return Outcome::violation(
                        format!("entry-separation/unexpected-block/{}>{}", prev, this),
                        format!("block {} of the output starts with {:?}, expected the {} entry starting with {:?}: entries are not separated by blank lines the way the statement says\n--- output ---\n{}", i + 1, b[0], this, e.first(), out),
                    );
                }
                if i > 0 && blanks[i] != 1 {
                    return Outcome::violation(format!("entry-separation/{}-blank-lines/{}>{}", blanks[i].min(9), prev, this), format!("{} blank lines between entry {} and entry {}\n--- output ---\n{}", blanks[i], i, i + 1, out));
                }
            }
            (Some(_), None) => {
                return Outcome::violation(format!("entry-separation/missing-block/{}>{}", prev, this), format!("the output has {} blank-line separated blocks for {} entries\n--- output ---\n{}", blocks.len(), entries.len(), out));
            }
            (None, Some(_)) => {
                return Outcome::violation(format!("entry-separation/extra-block/after-{}", prev), format!("the output has {} blank-line separated blocks for {} entries\n--- output ---\n{}", blocks.len(), entries.len(), out));
            }
            (None, None) => unreachable!(),
        }
    }
    // (a)-(d) per transaction block
    let mut classes: Vec<String> = vec![];
    let mut dontcare: Option<String> = None;
    for (e, b) in entries.iter().zip(blocks.iter()) {
        let (head_meta, posts) = match e {
            Entry::Txn { head_meta, posts, .. } => (head_meta, posts),
            Entry::Other { kind, text, .. } => {
                // the lines under an `account` / `commodity` directive are indented by four blanks, one output line per source line
                if matches!(*kind, "account" | "commodity") {
                    if b.len() != text.lines().count() {
                        return Outcome::violation(format!("directive-lines/count-changed/{}", kind), format!("the {} directive has {} lines, its formatted block has {}\n--- output ---\n{}", kind, text.lines().count(), b.len(), out));
                    }
                    for l in &b[1..] {
                        let ind = l.len() - l.trim_start_matches(' ').len();
                        if ind != 4 {
                            return Outcome::violation(format!("directive-lines/indent-{}/{}", ind.min(9), kind), format!("line {:?} under the {} directive is indented by {} blanks, not 4\n--- output ---\n{}", l, kind, ind, out));
                        }
                    }
                }
                continue;
            }
        };
        let mut post_lines: Vec<&str> = vec![];
        let mut meta_seen = 0usize;
        for l in &b[1..] {
            let is_meta = l.trim_start().starts_with(';');
            if is_meta {
                meta_seen += 1;
                let indent = l.bytes().take_while(|c| *c == b' ').count();
                if indent != 4 || l.as_bytes().get(4) != Some(&b';') {
                    return Outcome::violation(format!("indent/metadata/{}-spaces", indent.min(9)), format!("metadata line {:?} is not indented by exactly four spaces", l));
                }
            } else {
                post_lines.push(l);
            }
        }
        if post_lines.len() != posts.len() {
            return Outcome::violation("structure/posting-line-count", format!("{} postings in the input, {} posting lines in the output\n--- output ---\n{}", posts.len(), post_lines.len(), out));
        }
        let meta_expected = head_meta.len() + posts.iter().map(|p| p.meta.len()).sum::<usize>();
        if meta_seen != meta_expected {
            dontcare = Some("metadata-line-count-differs".into());
        }
        for (p, l) in posts.iter().zip(post_lines.iter()) {
            match judge_post(p, l) {
                J::Pass(c) => classes.push(c),
                J::DontCare(c) => dontcare = Some(c),
                J::Viol(sig, detail) => {
                    // consequence of a too narrow gap, as seen by the real parser
                    let conseq = match judge_reparse(entries, out) {
                        Some((_, d)) if sig.starts_with("account-gap/") => format!("; consequence on re-reading the formatted text: {}", d),
                        _ => String::new(),
                    };
                    return Outcome::violation(sig, format!("{}{}", detail, conseq));
                }
            }
        }
    }
    // (f)
    if let Some((sig, detail)) = judge_reparse(entries, out) {
        return Outcome::violation(sig, format!("{}\n--- output ---\n{}", detail, out));
    }
    if let Some(c) = dontcare {
        return Outcome::dont_care(c);
    }
    if entries.len() == 1 && classes.len() == 1 {
        Outcome::pass(classes.pop().unwrap())
    } else {
        Outcome::pass(format!("structure/{}-entries/{}-posting-lines", entries.len(), classes.len()))
    }
}

fn run_case(entries: &[Entry], text: &str) -> Outcome {
    let mut out: Vec<u8> = Vec::with_capacity(256);
    let mut r = text.as_bytes();
    match okane::format::format(&mut r, &mut out) {
        Ok(()) => {}
        Err(e) => return Outcome::dont_care(format!("input-not-accepted/{}", e)),
    }
    let out = match String::from_utf8(out) {
        Ok(s) => s,
        Err(_) => return Outcome::violation("output/not-utf8", "the formatted output is not UTF-8"),
    };
    judge(entries, &out)
}

// ------------------------------------------------------------------------------------------------
// alphabets

const ASCII_PATTERN: &str = "Assets:Bank:Checking:Main:Sub:Deep:Deeper:Deepest:Bottom:End:Xtra:More:Y";

/// accounts of every display width 1..=maxw: ASCII, ASCII with one inner space, wide only, one ASCII letter + wide
fn accounts(maxw: usize) -> Vec<String> {
    let mut v = vec![];
    // ASCII, display width 1..=maxw
    for w in 1..=maxw {
        v.push(ASCII_PATTERN[..w].to_string());
    }
    // ASCII with one inner single space, width 3..=maxw
    for w in 3..=maxw {
        let mut s = ASCII_PATTERN[..w].to_string();
        s.replace_range(1..2, " ");
        v.push(s);
    }
    // n wide characters, even widths 2..=maxw
    for n in 1..=maxw / 2 {
        v.push(WIDE.iter().cycle().take(n).collect());
    }
    // one ASCII letter + n wide characters, odd widths 3..=maxw+1
    for n in 1..=maxw / 2 {
        let mut s = String::from("A");
        s.extend(WIDE.iter().cycle().skip(3).take(n));
        v.push(s);
    }
    v
}

const MARKS: [&str; 3] = ["", "*", "!"];

fn group3(ip: &str) -> String {
    let mut out = String::new();
    for (i, c) in ip.chars().enumerate() {
        if i > 0 && (ip.len() - i) % 3 == 0 {
            out.push(',');
        }
        out.push(c);
    }
    out
}

/// every (digit count, scale, sign, grouping) up to the bounds, plus four zero-ish literals
fn numbers(max_digits: usize, max_scale: usize) -> Vec<String> {
    let mut v = vec![];
    for d in 1..=max_digits {
        for s in 0..=max_scale.min(d - 1) {
            for neg in [false, true] {
                for grouped in [false, true] {
                    let il = d - s;
                    if grouped && il < 4 {
                        continue;
                    }
                    let digits: String = "1234567890".chars().cycle().take(d).collect();
                    let (ip, fp) = digits.split_at(il);
                    let ip = if grouped { group3(ip) } else { ip.to_string() };
                    v.push(format!("{}{}{}{}", if neg { "-" } else { "" }, ip, if s > 0 { "." } else { "" }, fp));
                }
            }
        }
    }
    for x in ["0", "0.5", "-0.05", "0.00"] {
        v.push(x.to_string());
    }
    v
}

const NUMBER_SHAPES: [&str; 8] = ["5", "-5", "12.50", "-1,234.56", "1234567", "12345678901234", "-12,345,678,901.2345", "0.00"];

const KINDS: [(Kind, &str); 12] = [
    (Kind::Plain, "USD"),
    (Kind::Plain, "$"),
    (Kind::Plain, "円"),
    (Kind::Plain, ""),
    (Kind::ParenFirst, "USD"),
    (Kind::ParenSecond, "USD"),
    (Kind::ParenFirst, "円"),
    (Kind::ParenSecond, "$"),
    (Kind::Chain("1200 + 300 + "), "USD"),
    (Kind::Chain("3 * 2 * "), "USD"),
    (Kind::Chain("3 * 2 + "), "円"),
    (Kind::Chain("1 - 2 - 3 - "), "$"),
];

const LOTS: [&str; 5] = ["", " {1.5 USD}", " {{30 USD}} [2024/01/02] (lot note)", " [2024/01/02]", " (note only)"];
const COSTS: [&str; 3] = ["", " @ 1.1 EUR", " @@ 1,100 円"];

const HEAD: &str = "2024/01/05 shop";

fn one_txn(p: Post) -> Vec<Entry> {
    vec![Entry::Txn { head: HEAD, head_meta: &[], posts: vec![p] }]
}

fn structure_entries() -> Vec<Entry> {
    let p = |mark: &'static str, acc: &str, amount: Option<(Kind, &str, &'static str)>, lot: &'static str, cost: &'static str, balance: Option<(Kind, &str, &'static str)>, meta: &'static [&'static str]| Post {
        mark,
        account: acc.to_string(),
        amount: amount.map(|(kind, n, com)| Amt { kind, num: n.to_string(), com }),
        lot,
        cost,
        balance: balance.map(|(kind, n, com)| Amt { kind, num: n.to_string(), com }),
        meta,
    };
    vec![
        Entry::Txn {
            head: "2024/01/05 * (c1) Shop",
            head_meta: &["note one", ":tag1:tag2:"],
            posts: vec![
                p("", "Expenses:Food", Some((Kind::Plain, "12.50", "USD")), "", "", None, &["Payee: X", "second"]),
                p("!", "Expenses:Some Very Long Account Name:That Overflows:Col", Some((Kind::Plain, "-1,234.56", "USD")), " {1.5 USD}", " @ 1.1 EUR", Some((Kind::Plain, "0", "")), &[]),
                p("", "Assets:Cash", None, "", "", None, &["", "Key:: 1 + 1"]),
            ],
        },
        Entry::Other { kind: "comment", text: "; hello\n# world\n", first: "; hello" },
        Entry::Other { kind: "comment", text: ";\n", first: ";" },
        Entry::Other { kind: "account", text: "account Assets:Cash\n alias C\n note n1\n ; c1\n", first: "account Assets:Cash" },
        Entry::Other { kind: "commodity", text: "commodity USD\n alias $\n format 1,000.00 USD\n", first: "commodity USD" },
        Entry::Other { kind: "account", text: "account Assets:Bank\n note main account\n note opened in 2020\n alias B\n ; c1\n ; c2\n", first: "account Assets:Bank" },
        Entry::Other { kind: "commodity", text: "commodity EUR\n note n1  \n note n2\n ; c\n ; d\n alias E\n", first: "commodity EUR" },
        Entry::Other { kind: "apply", text: "apply tag foo: bar\n", first: "apply tag foo" },
        Entry::Other { kind: "end", text: "end apply tag\n", first: "end apply tag" },
        Entry::Other { kind: "include", text: "include other.ledger\n", first: "include other.ledger" },
        Entry::Txn { head: "2024/01/06", head_meta: &[], posts: vec![] },
        Entry::Txn {
            head: "2024/01/07 ! 店",
            head_meta: &["メモ"],
            posts: vec![
                p("*", "資産:銀行", Some((Kind::ParenSecond, "1,234", "円")), "", "", Some((Kind::Plain, "0", "")), &[":あ:"]),
                p("", "銀行 カード", None, "", "", Some((Kind::Plain, "5", "円")), &[]),
                p("", "Ａ", Some((Kind::Plain, "7", "")), "", " @@ 1,100 円", None, &[]),
            ],
        },
    ]
}

// ------------------------------------------------------------------------------------------------

fn run(ctx: &mut Ctx) {
    let thorough = ctx.tier == crate::fw::Tier::Thorough;
    let accts = accounts(if thorough { 70 } else { 60 });
    let nums = if thorough { numbers(20, 6) } else { numbers(14, 4) };
    ctx.fact("accounts", accts.len() as u64);
    ctx.fact("numbers", nums.len() as u64);

    let single = |ctx: &mut Ctx, p: Post| {
        let entries = one_txn(p);
        let text = render(&entries, &[]);
        ctx.case(|| text.clone(), || run_case(&entries, &text));
    };

    // family 1: every account x mark x number x amount kind, no tail
    for acc in &accts {
        for mark in MARKS {
            for n in &nums {
                for (kind, com) in KINDS {
                    if !ctx.next_is_mine() {
                        ctx.skip_cases(1);
                        continue;
                    }
                    let mut p = Post::new(mark, acc.clone());
                    p.amount = Some(Amt { kind, num: n.clone(), com });
                    single(ctx, p);
                }
            }
        }
    }

    // family 2: amount kinds x tails (quick: 8 number shapes; thorough: every number)
    let shapes: Vec<String> = if thorough { nums.clone() } else { NUMBER_SHAPES.iter().map(|s| s.to_string()).collect() };
    for acc in &accts {
        for mark in MARKS {
            for n in &shapes {
                for (kind, com) in KINDS {
                    for lot in LOTS {
                        for cost in COSTS {
                            for bal in [false, true] {
                                if lot.is_empty() && cost.is_empty() && !bal {
                                    continue; // family 1
                                }
                                if !ctx.next_is_mine() {
                                    ctx.skip_cases(1);
                                    continue;
                                }
                                let mut p = Post::new(mark, acc.clone());
                                p.amount = Some(Amt { kind, num: n.clone(), com });
                                p.lot = lot;
                                p.cost = cost;
                                if bal {
                                    p.balance = Some(Amt { kind: Kind::Plain, num: "100".into(), com });
                                }
                                single(ctx, p);
                            }
                        }
                    }
                }
            }
        }
    }

    // family 3: assertion-only postings
    for acc in &accts {
        for mark in MARKS {
            for n in &nums {
                for com in ["", "$", "USD", "円"] {
                    if !ctx.next_is_mine() {
                        ctx.skip_cases(1);
                        continue;
                    }
                    let mut p = Post::new(mark, acc.clone());
                    p.balance = Some(Amt { kind: Kind::Plain, num: n.clone(), com });
                    single(ctx, p);
                }
            }
            // expression assertions: executed, `=` column not judged
            for n in NUMBER_SHAPES {
                for (kind, com) in [(Kind::ParenFirst, "USD"), (Kind::ParenSecond, "円")] {
                    if !ctx.next_is_mine() {
                        ctx.skip_cases(1);
                        continue;
                    }
                    let mut p = Post::new(mark, acc.clone());
                    p.balance = Some(Amt { kind, num: n.to_string(), com });
                    single(ctx, p);
                }
            }
        }
    }

    // family 4: postings without amount and assertion
    for acc in &accts {
        for mark in MARKS {
            single(ctx, Post::new(mark, acc.clone()));
        }
    }

    // family 5: ledger structure — all sequences of 1..=3 entries x input separators x line ending
    let es = structure_entries();
    let seps_all: [&str; 3] = ["", "\n", "\n\n\n"];
    let ne = es.len();
    for len in 1..=3usize {
        let nseq = ne.pow(len as u32);
        let nsep = seps_all.len().pow((len - 1) as u32);
        for k in 0..nseq {
            for sk in 0..nsep {
                for crlf in [false, true] {
                    let mut idx = vec![];
                    let mut kk = k;
                    for _ in 0..len {
                        idx.push(kk % ne);
                        kk /= ne;
                    }
                    let mut seps = vec![];
                    let mut ss = sk;
                    for _ in 1..len {
                        seps.push(seps_all[ss % 3]);
                        ss /= 3;
                    }
                    // two comments written without a blank line between them are ONE entry: not in the space
                    if (1..len).any(|i| seps[i - 1].is_empty() && es[idx[i - 1]].kind() == "comment" && es[idx[i]].kind() == "comment") {
                        continue;
                    }
                    if !ctx.next_is_mine() {
                        ctx.skip_cases(1);
                        continue;
                    }
                    let entries: Vec<Entry> = idx.iter().map(|i| es[*i].clone()).collect();
                    let mut text = render(&entries, &seps);
                    if crlf {
                        text = text.replace('\n', "\r\n");
                    }
                    ctx.case(|| format!("{:?}", text), || run_case(&entries, &text));
                }
            }
        }
    }
}
