//! C03 — omitted and assigned amounts are inferred exactly.

use super::bk::{self, Case};
use crate::fw::{CheckDef, Ctx, Outcome};
use crate::refledger::{self as rl, Exp, Prec, Reject, State, Txn};

pub const DEF: CheckDef = CheckDef {
    id: "C03",
    run,
    technique: "explicit-state BFS over reference ledger states plus exhaustive depth-1 enumeration of all transactions containing an omitted or assigned posting from 8 start states; every edge re-executes the real book-keeping code and the inferred amounts / resulting balances are compared with the reference model",
    rule: "case = edge (history reaching a reference state, next transaction) where the transaction contains an omitted-amount posting and/or an `Account = X` assignment at any position among 1..3 (thorough ..4) postings; all such transactions over the posting alphabet from each of 8 start states (plain, alias and include renderings), plus the BFS history search of C02. Oracle: per-posting amounts (as commodity maps) and ALL account balances afterwards equal the reference (so inference alters no other account); two unconstrained postings and `= 0` on a multi-commodity account must be rejected",
    assumptions: &["same reference model and alphabet as C02", "omitted posting followed by an assignment on the same account is DON'T-CARE (circular)"],
    shards: 128,
    hang_s: 20,
    single_worker: false,
};

fn relevant(t: &Txn) -> bool {
    t.iter().any(|p| p.is_omitted() || p.is_assign())
}

pub fn judge(case: &Case, st: &State, txn: &Txn, n_hist: usize) -> Outcome {
    let exp = rl::step(st, &Prec::new(), txn);
    let got = bk::run_real(case).result;
    match (&exp, &got) {
        (Exp::DontCare(w), Ok(_)) => Outcome::dont_care(format!("dontcare/{}/accepted", w)),
        (Exp::DontCare(w), Err(e)) => Outcome::dont_care(format!("dontcare/{}/rejected/{}", w, e.variant)),
        (Exp::DontCareButIfAccepted { why, .. }, Err(e)) => Outcome::dont_care(format!("dontcare/{}/rejected/{}", why, e.variant)),
        (Exp::DontCareButIfAccepted { why, amounts, next }, Ok((bal, txns))) => match bk::compare_accept(amounts, next, bal, txns, n_hist) {
            Some(v) => v,
            None => Outcome::pass(format!("open/{}/inferred-consistently", why)),
        },
        (Exp::Accept { amounts, next, .. }, Ok((bal, txns))) => match bk::compare_accept(amounts, next, bal, txns, n_hist) {
            Some(v) => v,
            None => Outcome::pass(format!("accepted/inferred-exactly/{}", if txn.iter().any(|p| p.is_assign()) { "assignment" } else { "omitted" })),
        },
        (Exp::Accept { .. }, Err(e)) => {
            // assertion semantics are C02's business: a rejection caused by an assertion that follows an
            // omitted posting on the same account is judged there, not here
            if rl::omitted_then_constraint_same_account(txn) == Some("assert") || case.hist_has_assert_after_omitted {
                return Outcome::dont_care("dontcare/assertion-after-omitted-same-account(C02)");
            }
            Outcome::violation(format!("inferable-but-rejected/{}", e.variant), format!("exactly one unconstrained posting / well-defined assignments, but okane said:\n{}", e.rendered))
        }
        (Exp::Reject(rs), Ok(_)) => {
            let inference_reason = rs.iter().find(|r| matches!(r, Reject::TwoUnconstrained(..) | Reject::AssignZeroMulti(_)));
            match inference_reason {
                Some(r) => Outcome::violation(format!("must-reject-but-accepted/{}", r.tag()), "reference rejects this transaction".to_string()),
                // false assertion / unbalanced: C02 / C01 judge those
                None => Outcome::dont_care("dontcare/rejection-reason-belongs-to-C01-or-C02"),
            }
        }
        (Exp::Reject(rs), Err(e)) => Outcome::pass(format!("rejected/{}/{}", rs[0].tag(), e.variant)),
    }
}

fn run(ctx: &mut Ctx) {
    bk::enumerate_depth1(ctx, &relevant, &judge);
    let depth = ctx.tier.pick(3, 5);
    bk::enumerate_history(ctx, depth, &judge);
    precision_family(ctx);
}

/// Inference under declared commodity precisions: the omitted posting absorbs the EXACT remainder, not the
/// remainder rounded to the commodity's display precision. All transactions of 2 (full C01 alphabet: sub-precision
/// values, costs, lot prices) and 3 (reduced alphabet; thorough: 60 shapes) postings with exactly one omitted
/// posting x 3 precision contexts, judged by C01's comparison of per-posting amounts and balances.
fn precision_family(ctx: &mut Ctx) {
    use super::c01;
    use crate::refledger::P;
    let full = c01::alphabet();
    let red = c01::reduced(&full, ctx.tier.pick(40, 60));
    let precs: Vec<Prec> = vec![[("X", 2u32)].into_iter().collect(), [("X", 0u32)].into_iter().collect(), [("X", 2u32), ("Y", 0u32)].into_iter().collect()];
    const ACCTS: [&str; 3] = ["P1", "P2", "P3"];
    let mut emit = |ctx: &mut Ctx, prec: &Prec, ps: &[&P]| {
        if ps.iter().filter(|p| p.is_omitted()).count() != 1 {
            return;
        }
        if !ctx.next_is_mine() {
            ctx.skip_cases(1);
            return;
        }
        let txn: Txn = ps.iter().enumerate().map(|(i, p)| { let mut q = (*p).clone(); q.acct = ACCTS[i]; q }).collect();
        let (desc, run) = c01::judge_case(prec, &[], &txn);
        ctx.case(|| format!("[omitted posting under declared precision]\n{}", desc), move || {
            let o = run();
            // re-label: in this family the pass classes say what was inferred
            match o.verdict {
                crate::fw::Verdict::Pass => Outcome::pass(format!("precision/{}", o.class)),
                crate::fw::Verdict::DontCare => Outcome::dont_care(format!("precision/{}", o.class)),
                crate::fw::Verdict::Violation { sig, detail } => Outcome::violation(format!("precision/{}", sig), detail),
            }
        });
    };
    for prec in &precs {
        for a in &full {
            for b in &full {
                emit(ctx, prec, &[a, b]);
            }
        }
        for a in &red {
            for b in &red {
                for c in &red {
                    emit(ctx, prec, &[a, b, c]);
                }
            }
        }
    }
}
