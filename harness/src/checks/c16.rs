//! C16 — stub (not yet implemented; not registered in MANIFEST.json).
use crate::fw::{CheckDef, Ctx};

pub const DEF: CheckDef = CheckDef { id: "C16", run, technique: "stub", rule: "stub", assumptions: &[], shards: 0, hang_s: 20, single_worker: false };

fn run(_ctx: &mut Ctx) {}
