//! Framework: case enumeration context (worker side), process-isolated driver,
//! evidence writer, known-findings matching, replay.
//!
//! A *check* is a function `fn(&mut Ctx)` that enumerates its whole (bounded, finite)
//! case space deterministically and calls `ctx.case(..)` once per case.  The same
//! function runs in every worker; a worker executes only the cases of its shard.

use std::collections::{BTreeMap, BTreeSet};
use std::io::Write;
use std::panic::{catch_unwind, AssertUnwindSafe};
use std::path::{Path, PathBuf};
use std::time::{Duration, Instant};

use serde::{Deserialize, Serialize};

pub const VERIF_DIR: &str = "/verif";

/// Output root: /verif, or $OKV_OUT_DIR for development copies of the harness (never set by registered commands).
pub fn out_dir() -> PathBuf {
    match std::env::var("OKV_OUT_DIR") {
        Ok(d) if !d.is_empty() => PathBuf::from(d),
        _ => PathBuf::from(VERIF_DIR),
    }
}

#[derive(Clone, Copy, PartialEq, Eq, Debug)]
pub enum Tier {
    Quick,
    Thorough,
}
impl Tier {
    pub fn name(self) -> &'static str {
        match self {
            Tier::Quick => "quick",
            Tier::Thorough => "thorough",
        }
    }
    pub fn pick<T>(self, q: T, t: T) -> T {
        match self {
            Tier::Quick => q,
            Tier::Thorough => t,
        }
    }
}

/// What the oracle said about one case.
#[derive(Clone, Debug)]
pub enum Verdict {
    /// The reference model had a definite expectation and the implementation met it.
    Pass,
    /// The property statement is silent on this input; it was executed (must not crash) but not judged.
    DontCare,
    /// Disagreement. `sig` classifies it (clause + shape / call-site), `detail` is human readable.
    Violation { sig: String, detail: String },
}

#[derive(Clone, Debug)]
pub struct Outcome {
    pub verdict: Verdict,
    /// Outcome class, used to count distinct observed outcomes (vacuity guard).
    pub class: String,
}
impl Outcome {
    pub fn pass(class: impl Into<String>) -> Self {
        Outcome { verdict: Verdict::Pass, class: class.into() }
    }
    pub fn dont_care(class: impl Into<String>) -> Self {
        Outcome { verdict: Verdict::DontCare, class: class.into() }
    }
    pub fn violation(sig: impl Into<String>, detail: impl Into<String>) -> Self {
        let sig = sig.into();
        Outcome { class: format!("VIOLATION {}", sig), verdict: Verdict::Violation { sig, detail: detail.into() } }
    }
}

#[derive(Clone, Debug, Serialize, Deserialize, Default)]
pub struct ViolationRec {
    pub sig: String,
    pub detail: String,
    pub case_index: u64,
    pub desc: String,
    pub count: u64,
}

#[derive(Clone, Debug, Serialize, Deserialize, Default)]
pub struct Stats {
    pub evaluations: u64,
    pub must: u64,
    pub dont_care: u64,
    pub classes: BTreeMap<String, u64>,
    /// check-defined counters (states, transitions, ...), summed over workers
    pub counters: BTreeMap<String, u64>,
    /// check-defined global facts (identical in every worker; not summed)
    pub facts: BTreeMap<String, serde_json::Value>,
    /// first violation per signature (smallest case index) and count
    pub violations: BTreeMap<String, ViolationRec>,
    pub samples: Vec<String>,
    pub total_cases: u64,
}

impl Stats {
    pub fn merge(&mut self, o: Stats) {
        self.evaluations += o.evaluations;
        self.must += o.must;
        self.dont_care += o.dont_care;
        for (k, v) in o.classes {
            *self.classes.entry(k).or_default() += v;
        }
        for (k, v) in o.counters {
            *self.counters.entry(k).or_default() += v;
        }
        for (k, v) in o.facts {
            self.facts.insert(k, v);
        }
        for (k, v) in o.violations {
            match self.violations.get_mut(&k) {
                Some(e) => {
                    e.count += v.count;
                    if v.case_index < e.case_index {
                        let c = e.count;
                        *e = v;
                        e.count = c;
                    }
                }
                None => {
                    self.violations.insert(k, v);
                }
            }
        }
        for s in o.samples {
            if self.samples.len() < 12 {
                self.samples.push(s);
            }
        }
        self.total_cases = self.total_cases.max(o.total_cases);
    }
}

#[derive(Clone, Debug, PartialEq)]
pub enum Mode {
    /// execute the cases of my shard
    Run,
    /// print the description of case n, do not execute anything
    Describe(u64),
    /// execute only case n (replay), print observation
    Only(u64),
}

pub struct Ctx {
    pub tier: Tier,
    pub shard: u64,
    pub nshards: u64,
    pub mode: Mode,
    pub skip: BTreeSet<u64>,
    counter: u64,
    journal: Option<Journal>,
    pub stats: Stats,
    pub described: Option<String>,
    pub only_result: Option<(String, Outcome)>,
    class_cap: usize,
}

/// Shared-memory journal: [0] = index of the case about to run (u64::MAX = none), [1] = heartbeat tick.
pub struct Journal {
    ptr: *mut u64,
}
impl Journal {
    pub fn open(path: &Path) -> Journal {
        use std::os::unix::io::AsRawFd;
        let f = std::fs::OpenOptions::new().read(true).write(true).create(true).truncate(false).open(path).expect("journal open");
        f.set_len(64).expect("journal len");
        let p = unsafe { libc::mmap(std::ptr::null_mut(), 64, libc::PROT_READ | libc::PROT_WRITE, libc::MAP_SHARED, f.as_raw_fd(), 0) };
        assert!(p != libc::MAP_FAILED, "mmap journal");
        Journal { ptr: p as *mut u64 }
    }
    #[inline]
    pub fn set_case(&self, i: u64) {
        unsafe {
            std::ptr::write_volatile(self.ptr, i);
            let t = std::ptr::read_volatile(self.ptr.add(1));
            std::ptr::write_volatile(self.ptr.add(1), t.wrapping_add(1));
        }
    }
    #[inline]
    pub fn tick(&self) {
        unsafe {
            let t = std::ptr::read_volatile(self.ptr.add(1));
            std::ptr::write_volatile(self.ptr.add(1), t.wrapping_add(1));
        }
    }
    pub fn read(&self) -> (u64, u64) {
        unsafe { (std::ptr::read_volatile(self.ptr), std::ptr::read_volatile(self.ptr.add(1))) }
    }
}

thread_local! {
    static LAST_PANIC: std::cell::RefCell<Option<String>> = const { std::cell::RefCell::new(None) };
}

/// Install a silent panic hook that records message + first okane frame.
pub fn install_panic_hook() {
    std::panic::set_hook(Box::new(|info| {
        let msg = if let Some(s) = info.payload().downcast_ref::<&str>() {
            s.to_string()
        } else if let Some(s) = info.payload().downcast_ref::<String>() {
            s.clone()
        } else {
            "<non-string panic>".to_string()
        };
        let loc = info.location().map(|l| l.file().to_string()).unwrap_or_default();
        let bt = std::backtrace::Backtrace::force_capture().to_string();
        let mut frame = String::new();
        for line in bt.lines() {
            let l = line.trim();
            // lines look like "12: okane_core::report::book_keeping::check_balance"
            if let Some(pos) = l.find("okane_core::").or_else(|| l.find("okane::")).or_else(|| l.find("okane_golden::")) {
                let f = &l[pos..];
                if f.contains("verif::") {
                    continue;
                }
                // strip hash suffix and generic noise
                let f = f.split("::h").next().unwrap_or(f);
                frame = f.chars().take(120).collect();
                break;
            }
        }
        let loc_short = loc.rsplit("/src/").next().unwrap_or(&loc).to_string();
        let mut m: String = msg.chars().take(100).collect();
        // normalise numbers in messages so that signatures are stable
        m = m.chars().map(|c| if c.is_ascii_digit() { '#' } else { c }).collect();
        LAST_PANIC.with(|p| *p.borrow_mut() = Some(format!("{} @ {} [{}]", m, frame, loc_short)));
    }));
}

pub fn take_last_panic() -> String {
    LAST_PANIC.with(|p| p.borrow_mut().take()).unwrap_or_else(|| "<unknown panic>".into())
}

/// Run `f` catching panics; Err(signature) on panic.
pub fn guarded<T>(f: impl FnOnce() -> T) -> Result<T, String> {
    match catch_unwind(AssertUnwindSafe(f)) {
        Ok(v) => Ok(v),
        Err(_) => Err(take_last_panic()),
    }
}

impl Ctx {
    pub fn new(tier: Tier, shard: u64, nshards: u64, mode: Mode, skip: BTreeSet<u64>, journal: Option<Journal>) -> Ctx {
        Ctx { tier, shard, nshards, mode, skip, counter: 0, journal, stats: Stats::default(), described: None, only_result: None, class_cap: 4000 }
    }

    pub fn tick(&self) {
        if let Some(j) = &self.journal {
            j.tick();
        }
    }

    /// Add to a check-defined counter (summed over workers). Call only for things counted inside executed cases.
    pub fn count(&mut self, key: &str, n: u64) {
        *self.stats.counters.entry(key.to_string()).or_default() += n;
    }

    /// Record a fact that is the same in every worker (e.g. number of states of a reference BFS).
    pub fn fact(&mut self, key: &str, v: impl Into<serde_json::Value>) {
        self.stats.facts.insert(key.to_string(), v.into());
    }

    /// True if the *next* case (the one the following `case` call will number) belongs to this worker.
    #[inline]
    pub fn next_is_mine(&self) -> bool {
        match self.mode {
            Mode::Run => self.counter % self.nshards == self.shard,
            Mode::Describe(n) | Mode::Only(n) => self.counter == n,
        }
    }

    /// Skip `n` cases without looking at them (used by checks that can cheaply skip whole blocks).
    #[inline]
    pub fn skip_cases(&mut self, n: u64) {
        self.counter += n;
    }

    pub fn index(&self) -> u64 {
        self.counter
    }

    /// One case. `desc` renders the input (only called when needed); `run` executes the real code
    /// and judges it. Panics inside `run` are verdicts.
    #[inline]
    pub fn case<D, R>(&mut self, desc: D, run: R)
    where
        D: FnOnce() -> String,
        R: FnOnce() -> Outcome,
    {
        let idx = self.counter;
        self.counter += 1;
        match self.mode {
            Mode::Run => {
                if idx % self.nshards != self.shard {
                    return;
                }
                if self.skip.contains(&idx) {
                    return;
                }
                if let Some(j) = &self.journal {
                    j.set_case(idx);
                }
                let out = match guarded(run) {
                    Ok(o) => o,
                    Err(sig) => {
                        if sig.contains("harness bug") {
                            eprintln!("MACHINERY-ERROR: {} (case {}):\n{}", sig, idx, desc());
                            std::process::exit(3);
                        }
                        Outcome::violation(format!("crash/{}", sig), "panic while running okane on this input")
                    }
                };
                self.record(idx, out, desc);
            }
            Mode::Describe(n) => {
                if idx == n {
                    self.described = Some(desc());
                }
            }
            Mode::Only(n) => {
                if idx == n {
                    let d = desc();
                    let out = match guarded(run) {
                        Ok(o) => o,
                        Err(sig) => Outcome::violation(format!("crash/{}", sig), "panic while running okane on this input"),
                    };
                    self.only_result = Some((d, out));
                }
            }
        }
    }

    fn record<D: FnOnce() -> String>(&mut self, idx: u64, out: Outcome, desc: D) {
        self.stats.evaluations += 1;
        let mut desc_opt = Some(desc);
        match &out.verdict {
            Verdict::Pass => self.stats.must += 1,
            Verdict::DontCare => self.stats.dont_care += 1,
            Verdict::Violation { sig, detail } => {
                self.stats.must += 1;
                match self.stats.violations.get_mut(sig) {
                    Some(v) => v.count += 1,
                    None => {
                        let d = (desc_opt.take().unwrap())();
                        self.stats.violations.insert(
                            sig.clone(),
                            ViolationRec { sig: sig.clone(), detail: detail.clone(), case_index: idx, desc: d, count: 1 },
                        );
                    }
                }
            }
        }
        if self.stats.classes.len() < self.class_cap || self.stats.classes.contains_key(&out.class) {
            *self.stats.classes.entry(out.class).or_default() += 1;
        } else {
            *self.stats.classes.entry("<class cap reached>".into()).or_default() += 1;
        }
        // keep a few samples spread over the space: cases 0,1 of the shard and some later ones
        if self.stats.samples.len() < 3 || (self.stats.samples.len() < 6 && self.stats.evaluations.is_power_of_two() && self.stats.evaluations > 64) {
            if let Some(d) = desc_opt.take() {
                self.stats.samples.push(d());
            }
        }
    }

    pub fn finish(&mut self) {
        self.stats.total_cases = self.counter;
        if let Some(j) = &self.journal {
            j.set_case(u64::MAX);
        }
    }
}

// ------------------------------------------------------------------------------------------
// Known findings

#[derive(Clone, Debug, Deserialize, Serialize)]
pub struct Finding {
    pub property: String,
    /// "known" or "fixed"
    pub status: String,
    /// exact violation signature this entry covers
    pub sig: String,
    /// concrete witness (input / history) that fails
    pub witness: String,
    pub what: String,
    #[serde(default)]
    pub commit: Option<String>,
    #[serde(default)]
    pub design_ref: Option<String>,
}

pub fn load_findings() -> Vec<Finding> {
    let p = Path::new(VERIF_DIR).join("known_findings.json");
    match std::fs::read_to_string(&p) {
        Ok(s) => {
            let v: serde_json::Value = serde_json::from_str(&s).expect("known_findings.json must be valid JSON");
            serde_json::from_value(v["findings"].clone()).expect("known_findings.json: findings[]")
        }
        Err(_) => vec![],
    }
}

// ------------------------------------------------------------------------------------------
// Check registry entry

pub struct CheckDef {
    pub id: &'static str,
    pub run: fn(&mut Ctx),
    pub technique: &'static str,
    pub rule: &'static str,
    pub assumptions: &'static [&'static str],
    /// number of shards; 0 = default
    pub shards: u64,
    /// per-case hang threshold in seconds
    pub hang_s: u64,
    /// this check must run alone in a single worker (process-global state such as env vars)
    pub single_worker: bool,
}

// ------------------------------------------------------------------------------------------
// Driver

fn self_exe() -> PathBuf {
    std::env::current_exe().expect("current_exe")
}

pub fn scratch_root() -> PathBuf {
    let p = out_dir().join("target").join("scratch");
    std::fs::create_dir_all(&p).ok();
    p
}

struct Running {
    child: std::process::Child,
    shard: u64,
    journal_path: PathBuf,
    journal: Journal,
    out_path: PathBuf,
    last: (u64, u64),
    last_change: Instant,
    skip: BTreeSet<u64>,
}

#[derive(Debug)]
pub struct Death {
    pub shard: u64,
    pub case_index: u64,
    pub how: String,
}

pub struct DriverResult {
    pub stats: Stats,
    pub deaths: Vec<Death>,
    pub capped: Option<String>,
    pub wall_s: f64,
}

fn spawn_worker(def: &CheckDef, tier: Tier, shard: u64, nshards: u64, dir: &Path, skip: &BTreeSet<u64>) -> Running {
    let journal_path = dir.join(format!("journal.{}", shard));
    let out_path = dir.join(format!("out.{}.json", shard));
    let _ = std::fs::remove_file(&journal_path);
    let _ = std::fs::remove_file(&out_path);
    let journal = Journal::open(&journal_path);
    journal.set_case(u64::MAX);
    let skip_s: Vec<String> = skip.iter().map(|x| x.to_string()).collect();
    let child = std::process::Command::new(self_exe())
        .arg("worker")
        .arg(def.id)
        .arg(tier.name())
        .arg(shard.to_string())
        .arg(nshards.to_string())
        .arg(&journal_path)
        .arg(&out_path)
        .arg(skip_s.join(","))
        .stdin(std::process::Stdio::null())
        .stdout(std::process::Stdio::null())
        .stderr(std::process::Stdio::inherit())
        .spawn()
        .expect("spawn worker");
    Running { child, shard, journal_path, journal, out_path, last: (u64::MAX, 0), last_change: Instant::now(), skip: skip.clone() }
}

pub fn machinery_error(msg: &str) -> ! {
    eprintln!("MACHINERY-ERROR: {}", msg);
    std::process::exit(2);
}

pub fn drive(def: &CheckDef, tier: Tier, seed: u64, wall_cap: Duration) -> DriverResult {
    let t0 = Instant::now();
    let ncpu = std::thread::available_parallelism().map(|n| n.get()).unwrap_or(4).min(16) as u64;
    let (nworkers, nshards) = if def.single_worker { (1u64, 1u64) } else { (ncpu, if def.shards > 0 { def.shards } else { ncpu * 4 }) };
    let dir = scratch_root().join(format!("drv-{}-{}", def.id, std::process::id()));
    let _ = std::fs::remove_dir_all(&dir);
    std::fs::create_dir_all(&dir).expect("scratch dir");
    // shard order rotated by seed (never selects cases, only the order in which shards start)
    let mut pending: Vec<(u64, BTreeSet<u64>)> = (0..nshards).map(|s| ((s + seed) % nshards, BTreeSet::new())).collect();
    pending.reverse();
    let mut running: Vec<Running> = vec![];
    let mut total = Stats::default();
    let mut deaths: Vec<Death> = vec![];
    let mut capped = None;
    let hang = Duration::from_secs(def.hang_s.max(1));
    loop {
        while (running.len() as u64) < nworkers {
            match pending.pop() {
                Some((s, skip)) => running.push(spawn_worker(def, tier, s, nshards, &dir, &skip)),
                None => break,
            }
        }
        if running.is_empty() {
            break;
        }
        std::thread::sleep(Duration::from_millis(20));
        if t0.elapsed() > wall_cap {
            capped = Some(format!("wall-time cap of {} s hit; {} shards unfinished", wall_cap.as_secs(), running.len() + pending.len()));
            for r in running.iter_mut() {
                let _ = r.child.kill();
                let _ = r.child.wait();
            }
            break;
        }
        let mut i = 0;
        while i < running.len() {
            let r = &mut running[i];
            let cur = r.journal.read();
            if cur != r.last {
                r.last = cur;
                r.last_change = Instant::now();
            }
            match r.child.try_wait().expect("try_wait") {
                Some(status) => {
                    let r = running.swap_remove(i);
                    if status.success() {
                        let s = std::fs::read_to_string(&r.out_path).unwrap_or_else(|_| machinery_error("worker exited 0 without result file"));
                        let st: Stats = serde_json::from_str(&s).unwrap_or_else(|e| machinery_error(&format!("bad worker result: {}", e)));
                        total.merge(st);
                    } else if status.code() == Some(3) {
                        machinery_error(&format!("worker for shard {} reported a machinery error", r.shard));
                    } else {
                        // died: signal (stack overflow -> SIGABRT/SIGSEGV, OOM) or unexpected exit code
                        let (case, _) = r.journal.read();
                        if case == u64::MAX {
                            machinery_error(&format!("worker for shard {} died outside any case: {:?}", r.shard, status));
                        }
                        use std::os::unix::process::ExitStatusExt;
                        let how = match status.signal() {
                            Some(sig) => format!("abort/signal-{}", sig),
                            None => format!("abort/exit-{}", status.code().unwrap_or(-1)),
                        };
                        deaths.push(Death { shard: r.shard, case_index: case, how });
                        let mut skip = r.skip.clone();
                        skip.insert(case);
                        if skip.len() > 40 {
                            capped = Some(format!("shard {} killed more than 40 workers; giving up on it", r.shard));
                        } else {
                            pending.push((r.shard, skip));
                        }
                    }
                    let _ = std::fs::remove_file(&r.journal_path);
                    let _ = std::fs::remove_file(&r.out_path);
                    continue;
                }
                None => {
                    if r.last.0 != u64::MAX && r.last_change.elapsed() > hang {
                        let mut r = running.swap_remove(i);
                        let _ = r.child.kill();
                        let _ = r.child.wait();
                        let (case, _) = r.journal.read();
                        deaths.push(Death { shard: r.shard, case_index: case, how: "hang".into() });
                        let mut skip = r.skip.clone();
                        skip.insert(case);
                        if skip.len() > 40 {
                            capped = Some(format!("shard {} killed more than 40 workers; giving up on it", r.shard));
                        } else {
                            pending.push((r.shard, skip));
                        }
                        let _ = std::fs::remove_file(&r.journal_path);
                        let _ = std::fs::remove_file(&r.out_path);
                        continue;
                    }
                }
            }
            i += 1;
        }
    }
    let _ = std::fs::remove_dir_all(&dir);
    DriverResult { stats: total, deaths, capped, wall_s: t0.elapsed().as_secs_f64() }
}

/// Run the worker in-process in Describe mode to obtain the description of a case.
pub fn describe_case(def: &CheckDef, tier: Tier, idx: u64) -> String {
    let out = std::process::Command::new(self_exe()).arg("describe").arg(def.id).arg(tier.name()).arg(idx.to_string()).output().expect("describe");
    String::from_utf8_lossy(&out.stdout).to_string()
}

/// Re-run exactly one case in a fresh process; returns (exit-kind, printed observation).
pub fn run_only(def: &CheckDef, tier: Tier, idx: u64, timeout: Duration) -> (String, String) {
    let mut child = std::process::Command::new(self_exe())
        .arg("only")
        .arg(def.id)
        .arg(tier.name())
        .arg(idx.to_string())
        .stdout(std::process::Stdio::piped())
        .stderr(std::process::Stdio::null())
        .spawn()
        .expect("spawn only");
    let t0 = Instant::now();
    loop {
        match child.try_wait().expect("wait") {
            Some(st) => {
                let mut s = String::new();
                use std::io::Read;
                child.stdout.take().unwrap().read_to_string(&mut s).ok();
                use std::os::unix::process::ExitStatusExt;
                let kind = if st.success() { "ok".to_string() } else if let Some(sig) = st.signal() { format!("abort/signal-{}", sig) } else { format!("exit-{}", st.code().unwrap_or(-1)) };
                return (kind, s);
            }
            None => {
                if t0.elapsed() > timeout {
                    let _ = child.kill();
                    let _ = child.wait();
                    return ("hang".into(), String::new());
                }
                std::thread::sleep(Duration::from_millis(10));
            }
        }
    }
}

#[derive(Serialize, Deserialize, Debug)]
pub struct ReplayFile {
    pub property: String,
    pub tier: String,
    pub case_index: u64,
    pub sig: String,
    pub detail: String,
    pub input: String,
    pub count_in_run: u64,
}

fn sanitize(s: &str) -> String {
    let mut h: u64 = 0xcbf29ce484222325;
    for b in s.bytes() {
        h ^= b as u64;
        h = h.wrapping_mul(0x100000001b3);
    }
    let head: String = s.chars().map(|c| if c.is_ascii_alphanumeric() { c } else { '_' }).take(60).collect();
    format!("{}-{:08x}", head, h as u32)
}

/// Top-level `check` command. Returns process exit code.
pub fn check_main(def: &CheckDef, tier: Tier) -> i32 {
    let seed: u64 = std::env::var("VERIF_SEED").ok().and_then(|s| s.parse().ok()).unwrap_or(0);
    let cap = match tier {
        Tier::Quick => Duration::from_secs(std::env::var("OKV_QUICK_CAP_S").ok().and_then(|s| s.parse().ok()).unwrap_or(240)),
        Tier::Thorough => Duration::from_secs(std::env::var("OKV_THOROUGH_CAP_S").ok().and_then(|s| s.parse().ok()).unwrap_or(3000)),
    };
    let res = drive(def, tier, seed, cap);
    let mut stats = res.stats;
    // Worker deaths are verdicts about okane - but only if they are properties of the CASE, not of the machine:
    // okane is deterministic and single-threaded, so a genuine hang or stack overflow reproduces on every replay.
    // Each death is replayed twice in a fresh process with a generous time limit; if a replay runs to completion the
    // death was environmental (an overloaded machine starving a worker past the watchdog, an OOM kill) and the
    // replay's verdict is the case's verdict.
    // (a change that makes okane hang on a whole class of inputs produces hundreds of deaths: only the first few of
    // each kind are replayed - a kind that reproduced three times is taken as genuine for the remaining ones)
    let mut reproduced: BTreeMap<String, u32> = BTreeMap::new();
    for d in &res.deaths {
        let desc = if reproduced.get(&d.how).copied().unwrap_or(0) >= 3 && stats.violations.contains_key(&d.how) { String::new() } else { describe_case(def, tier, d.case_index) };
        let t = Duration::from_secs(def.hang_s.max(1) * 2 + 10);
        let (r1, r2) = if reproduced.get(&d.how).copied().unwrap_or(0) >= 3 {
            ((d.how.clone(), String::new()), (d.how.clone(), String::new()))
        } else {
            (run_only(def, tier, d.case_index, t), run_only(def, tier, d.case_index, t))
        };
        let finished: Vec<&(String, String)> = [&r1, &r2].into_iter().filter(|r| r.0 == "ok").collect();
        if finished.is_empty() {
            *reproduced.entry(d.how.clone()).or_default() += 1;
        }
        let mut sig = d.how.clone();
        let mut detail = "worker process died or hung while running okane on this input (reproduced in 2 of 2 replays)".to_string();
        if let Some(done) = finished.first() {
            let vline = done.1.lines().find(|l| l.starts_with("verdict:")).unwrap_or("").to_string();
            println!("NOTE: worker death ({}) at case {} was not reproduced on replay ({} of 2 replays ran to completion: {}); the replay's verdict stands", d.how, d.case_index, finished.len(), vline);
            stats.evaluations += 1;
            if let Some(rest) = vline.strip_prefix("verdict: VIOLATION sig=") {
                sig = rest.trim().to_string();
                detail = done.1.lines().skip_while(|l| !l.starts_with("verdict:")).skip(1).collect::<Vec<_>>().join("\n");
            } else {
                if vline.starts_with("verdict: PASS") {
                    stats.must += 1;
                } else {
                    stats.dont_care += 1;
                }
                *stats.classes.entry("replayed-after-environmental-worker-death".to_string()).or_default() += 1;
                continue;
            }
        } else {
            stats.evaluations += 1;
        }
        stats.must += 1;
        *stats.classes.entry(format!("VIOLATION {}", sig)).or_default() += 1;
        let e = stats.violations.entry(sig.clone()).or_insert(ViolationRec { sig: sig.clone(), detail, case_index: d.case_index, desc: desc.clone(), count: 0 });
        e.count += 1;
        if d.case_index < e.case_index && !desc.is_empty() {
            e.case_index = d.case_index;
            e.desc = desc;
        }
    }
    let findings = load_findings();
    let mut exit = 0;
    let mut reported = 0u64;
    let mut unreproduced = 0u64;
    let mut known_lines = vec![];
    let replay_dir = out_dir().join("replays").join(def.id);
    for (sig, v) in &stats.violations {
        let known = findings.iter().find(|f| f.property == def.id && f.status == "known" && f.sig == *sig);
        if let Some(f) = known {
            known_lines.push(format!("KNOWN-FINDING: property={} sig={} count={} {}", def.id, sig, v.count, f.what));
            continue;
        }
        // confirm determinism: replay twice in fresh processes
        let t = Duration::from_secs(def.hang_s.max(1) * 3 + 20);
        // (a violation found by a free-running *sampling* pass is nondeterminism of okane itself by definition:
        // it is reported as found and exempt from the replay-equality requirement)
        let sampling = sig.starts_with("free-running/");
        let verdict_line = |x: &(String, String)| -> (String, String) { (x.0.clone(), x.1.lines().find(|l| l.starts_with("verdict:")).unwrap_or("").to_string()) };
        let a = if sampling { ("".into(), "".into()) } else { verdict_line(&run_only(def, tier, v.case_index, t)) };
        let b = if sampling { ("".into(), "".into()) } else { verdict_line(&run_only(def, tier, v.case_index, t)) };
        if a != b {
            eprintln!("replay of case {} is not deterministic:\n--1-- {:?}\n--2-- {:?}", v.case_index, a, b);
            machinery_error("non-deterministic replay: harness does not own all nondeterminism");
        }
        if !sampling && a.0 == "ok" && !a.1.starts_with("verdict: VIOLATION") {
            // The case failed inside a worker that had run other cases before it, and passes alone in a fresh process:
            // either okane carries state from one call to the next, or the harness leaks nondeterminism. It is not
            // reported as a violation (it has no replayable artefact); if nothing reproducible is found the run ends
            // as a machinery error instead of a pass.
            println!("NOTE: case {} was judged a violation ({}) during the exploration but passes when replayed alone in a fresh process: {:?}", v.case_index, sig, a);
            unreproduced += 1;
            continue;
        }
        std::fs::create_dir_all(&replay_dir).ok();
        let path = replay_dir.join(format!("{}.json", sanitize(sig)));
        let rf = ReplayFile { property: def.id.into(), tier: tier.name().into(), case_index: v.case_index, sig: sig.clone(), detail: v.detail.clone(), input: v.desc.clone(), count_in_run: v.count };
        std::fs::write(&path, serde_json::to_string_pretty(&rf).unwrap()).ok();
        println!("VIOLATION property={} replay={}", def.id, path.display());
        println!("  sig: {}\n  count: {}\n  detail: {}\n  input:\n{}", sig, v.count, v.detail, indent(&v.desc));
        reported += 1;
        exit = 1;
    }
    for l in &known_lines {
        println!("{}", l);
    }
    let exhaustive = res.capped.is_none();
    if let Some(c) = &res.capped {
        println!("CAPPED: {}", c);
    }
    write_evidence(def, tier, seed, &stats, res.wall_s, reported, known_lines.len() as u64, exhaustive, res.capped.as_deref(), res.deaths.len() as u64);
    println!(
        "{} {}: cases={} executed={} must={} dont_care={} distinct_outcomes={} violations_reported={} known_findings={} worker_deaths={} wall={:.1}s exhaustive={}",
        def.id,
        tier.name(),
        stats.total_cases,
        stats.evaluations,
        stats.must,
        stats.dont_care,
        stats.classes.len(),
        reported,
        known_lines.len(),
        res.deaths.len(),
        res.wall_s,
        exhaustive
    );
    if stats.evaluations == 0 {
        machinery_error("no case was executed");
    }
    if exit == 0 && unreproduced > 0 {
        machinery_error("a failure seen during the exploration did not reproduce in a fresh process and nothing reproducible was found: the run is not a pass");
    }
    exit
}

fn indent(s: &str) -> String {
    s.lines().map(|l| format!("    | {}", l)).collect::<Vec<_>>().join("\n")
}

#[allow(clippy::too_many_arguments)]
fn write_evidence(def: &CheckDef, tier: Tier, seed: u64, stats: &Stats, wall: f64, reported: u64, known: u64, exhaustive: bool, capped: Option<&str>, deaths: u64) {
    let states = stats.counters.get("states").copied().or_else(|| stats.facts.get("states").and_then(|v| v.as_u64())).unwrap_or(stats.evaluations);
    let transitions = stats.counters.get("transitions").copied().unwrap_or(stats.evaluations);
    let validated = stats.counters.get("validated").copied().unwrap_or(stats.must);
    let nontrivial_classes = stats.classes.len() as u64;
    let mut top: Vec<(&String, &u64)> = stats.classes.iter().collect();
    top.sort_by(|a, b| b.1.cmp(a.1));
    let classes: serde_json::Map<String, serde_json::Value> = top.iter().take(40).map(|(k, v)| ((*k).clone(), serde_json::json!(**v))).collect();
    let ev = serde_json::json!({
        "property_id": def.id,
        "tier": tier.name(),
        "seed": seed,
        "level": "model_checking",
        "coverage": {
            "states": states.max(1),
            "transitions": transitions.max(1),
            "traces_validated_against_impl": validated,
            "evaluations": stats.evaluations.max(1),
            "distinct_nontrivial": stats.must,
            "rule": def.rule,
            "samples": stats.samples,
            "exhaustive": exhaustive,
            "cap_hit": capped,
            "cases_in_space": stats.total_cases,
            "must_cases": stats.must,
            "dont_care_cases": stats.dont_care,
            "distinct_outcome_classes": nontrivial_classes,
            "outcome_classes_top": classes,
            "counters": stats.counters,
            "facts": stats.facts,
            "worker_deaths": deaths,
            "violations_reported": reported,
            "known_findings_matched": known,
            "technique": def.technique,
        },
        "assumptions": def.assumptions,
        "wall_s": wall,
        "violations": reported,
    });
    let dir = out_dir().join("evidence");
    std::fs::create_dir_all(&dir).ok();
    let p = dir.join(format!("{}.json", def.id));
    let tmp = dir.join(format!("{}.json.tmp", def.id));
    let mut f = std::fs::File::create(&tmp).expect("evidence tmp");
    f.write_all(serde_json::to_string_pretty(&ev).unwrap().as_bytes()).unwrap();
    f.write_all(b"\n").unwrap();
    drop(f);
    std::fs::rename(&tmp, &p).expect("evidence rename");
}

// ------------------------------------------------------------------------------------------
// Worker entry points

pub fn worker_main(def: &CheckDef, tier: Tier, shard: u64, nshards: u64, journal: &Path, out: &Path, skip: BTreeSet<u64>) -> i32 {
    install_panic_hook();
    cap_memory();
    let j = Journal::open(journal);
    let mut ctx = Ctx::new(tier, shard, nshards, Mode::Run, skip, Some(j));
    // a panic in enumeration code OUTSIDE a case is a harness bug, not a verdict about okane
    if let Err(sig) = guarded(|| (def.run)(&mut ctx)) {
        eprintln!("MACHINERY-ERROR: panic in the enumeration code of {} outside any case: {}", def.id, sig);
        return 3;
    }
    ctx.finish();
    // remove this process's scratch directories (oka::scratch_dir names them <tag>-<pid>)
    if let Ok(rd) = std::fs::read_dir(scratch_root()) {
        let suffix = format!("-{}", std::process::id());
        for e in rd.flatten() {
            if e.file_name().to_string_lossy().ends_with(&suffix) && !e.file_name().to_string_lossy().starts_with("drv-") {
                let _ = std::fs::remove_dir_all(e.path());
            }
        }
    }
    let s = serde_json::to_string(&ctx.stats).unwrap();
    if std::fs::write(out, s).is_err() {
        return 3;
    }
    0
}

pub fn describe_main(def: &CheckDef, tier: Tier, idx: u64) -> i32 {
    let mut ctx = Ctx::new(tier, 0, 1, Mode::Describe(idx), BTreeSet::new(), None);
    (def.run)(&mut ctx);
    match ctx.described {
        Some(d) => {
            print!("{}", d);
            0
        }
        None => {
            eprintln!("case {} not in space", idx);
            3
        }
    }
}

pub fn only_main(def: &CheckDef, tier: Tier, idx: u64) -> i32 {
    install_panic_hook();
    cap_memory();
    let mut ctx = Ctx::new(tier, 0, 1, Mode::Only(idx), BTreeSet::new(), None);
    (def.run)(&mut ctx);
    match ctx.only_result {
        Some((d, o)) => {
            println!("input:\n{}", indent(&d));
            match o.verdict {
                Verdict::Pass => println!("verdict: PASS ({})", o.class),
                Verdict::DontCare => println!("verdict: DONT-CARE ({})", o.class),
                Verdict::Violation { sig, detail } => println!("verdict: VIOLATION sig={}\n{}", sig, detail),
            }
            0
        }
        None => {
            eprintln!("case {} not in space", idx);
            3
        }
    }
}

fn cap_memory() {
    // 6 GiB address-space cap per worker: an allocation bomb becomes an abort (a verdict), not an OOM kill of the sandbox
    unsafe {
        let lim = libc::rlimit { rlim_cur: 6 << 30, rlim_max: 6 << 30 };
        libc::setrlimit(libc::RLIMIT_AS, &lim);
    }
}
