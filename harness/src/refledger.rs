//! RefLedger — reference semantics of okane's book-keeping as stated by C01–C03.
//! Deliberately boring: exact rationals, BTreeMaps, two passes over a transaction.

use std::collections::BTreeMap;

use crate::q::{qmap_add, qmap_clean, QMap, Q};

#[derive(Clone, Debug, PartialEq, Eq, Hash, PartialOrd, Ord)]
pub enum Ann {
    None,
    /// `@ v c`
    Rate(&'static str, &'static str),
    /// `@@ v c`
    Total(&'static str, &'static str),
    /// `{v c}`
    LotRate(&'static str, &'static str),
    /// `{{v c}}`
    LotTotal(&'static str, &'static str),
    /// `{v c} @ w c`  (lot wins)
    LotRateAndCost(&'static str, &'static str, &'static str),
}

#[derive(Clone, Debug, PartialEq, Eq, Hash, PartialOrd, Ord)]
pub enum Bal {
    None,
    /// bare `= 0`
    Zero,
    /// `= v c`
    Val(&'static str, &'static str),
}

/// One posting. `amt = None` and `bal = None`: omitted; `amt = None`, `bal != None`: assignment.
/// `amt = Some((v, ""))` is a bare number. `spelling` optionally overrides how the amount is written
/// (a parenthesised expression with the same value).
#[derive(Clone, Debug, PartialEq, Eq, Hash, PartialOrd, Ord)]
pub struct P {
    pub acct: &'static str,
    pub amt: Option<(&'static str, &'static str)>,
    pub spelling: Option<&'static str>,
    pub ann: Ann,
    pub bal: Bal,
}

impl P {
    pub const fn omitted(acct: &'static str) -> P {
        P { acct, amt: None, spelling: None, ann: Ann::None, bal: Bal::None }
    }
    pub const fn amt(acct: &'static str, v: &'static str, c: &'static str) -> P {
        P { acct, amt: Some((v, c)), spelling: None, ann: Ann::None, bal: Bal::None }
    }
    pub const fn with_ann(mut self, a: Ann) -> P {
        self.ann = a;
        self
    }
    pub const fn with_bal(mut self, b: Bal) -> P {
        self.bal = b;
        self
    }
    pub const fn assign(acct: &'static str, b: Bal) -> P {
        P { acct, amt: None, spelling: None, ann: Ann::None, bal: b }
    }
    pub fn is_omitted(&self) -> bool {
        self.amt.is_none() && self.bal == Bal::None
    }
    pub fn is_assign(&self) -> bool {
        self.amt.is_none() && self.bal != Bal::None
    }
    pub fn render(&self, acct_name: &str) -> String {
        let mut s = format!("  {}", acct_name);
        if let Some((v, c)) = &self.amt {
            match self.spelling {
                Some(sp) => s.push_str(&format!("  {}", sp)),
                None => {
                    if c.is_empty() {
                        s.push_str(&format!("  {}", v))
                    } else {
                        s.push_str(&format!("  {} {}", v, c))
                    }
                }
            }
        }
        match &self.ann {
            Ann::None => {}
            Ann::Rate(v, c) => s.push_str(&format!(" @ {} {}", v, c)),
            Ann::Total(v, c) => s.push_str(&format!(" @@ {} {}", v, c)),
            Ann::LotRate(v, c) => s.push_str(&format!(" {{{} {}}}", v, c)),
            Ann::LotTotal(v, c) => s.push_str(&format!(" {{{{{} {}}}}}", v, c)),
            Ann::LotRateAndCost(v, c, w) => s.push_str(&format!(" {{{} {}}} @ {} {}", v, c, w, c)),
        }
        match &self.bal {
            Bal::None => {}
            Bal::Zero => s.push_str("  = 0"),
            Bal::Val(v, c) => s.push_str(&format!("  = {} {}", v, c)),
        }
        s
    }
}

pub type Txn = Vec<P>;

#[derive(Clone, Debug, Default, PartialEq, Eq, Hash, PartialOrd, Ord)]
pub struct State {
    /// per-account per-commodity balances, zero entries dropped, empty accounts dropped
    pub bal: BTreeMap<String, QMap>,
}

#[derive(Clone, Debug, PartialEq, Eq)]
pub enum Reject {
    TwoUnconstrained(usize, usize),
    AssignZeroMulti(usize),
    /// posting index, computed balance of the account after that posting
    AssertFalse(usize, QMap),
    /// classification of the residual
    Unbalanced(&'static str, QMap),
}
impl Reject {
    pub fn tag(&self) -> String {
        match self {
            Reject::TwoUnconstrained(..) => "two-unconstrained".into(),
            Reject::AssignZeroMulti(_) => "assign-zero-on-multi-commodity".into(),
            Reject::AssertFalse(..) => "assertion-false".into(),
            Reject::Unbalanced(k, _) => format!("unbalanced/{}", k),
        }
    }
}

#[derive(Clone, Debug, PartialEq, Eq)]
pub enum Exp {
    /// Accepted: per-posting amounts (commodity maps, zero entries dropped) and the next state.
    Accept { amounts: Vec<QMap>, next: State, implied_exchange: bool },
    /// All reasons for which the transaction must be rejected (non-empty).
    Reject(Vec<Reject>),
    DontCare(&'static str),
    /// The statement leaves acceptance open, but IF accepted the result must be this.
    DontCareButIfAccepted { why: &'static str, amounts: Vec<QMap>, next: State },
}

pub type Prec = BTreeMap<&'static str, u32>;

fn cleaned(m: &QMap) -> QMap {
    let mut m = m.clone();
    qmap_clean(&mut m);
    m
}

/// Is there an assertion/assignment that depends on an omitted posting earlier on the same account?
pub fn omitted_then_constraint_same_account(ps: &[P]) -> Option<&'static str> {
    let o = ps.iter().position(|p| p.is_omitted())?;
    // an assignment anywhere after the omitted posting makes the transaction circular (the inferred amount
    // depends on the assigned one and vice versa), whatever stands between them: it takes precedence
    let later = || ps[o + 1..].iter().filter(|p| p.acct == ps[o].acct);
    if later().any(|p| p.is_assign()) {
        return Some("assign");
    }
    if later().any(|p| p.bal != Bal::None) {
        return Some("assert");
    }
    None
}

/// The reference step.
pub fn step(st: &State, prec: &Prec, ps: &[P]) -> Exp {
    let omitted: Vec<usize> = ps.iter().enumerate().filter(|(_, p)| p.is_omitted()).map(|(i, _)| i).collect();
    let mut reasons: Vec<Reject> = vec![];
    if omitted.len() >= 2 {
        reasons.push(Reject::TwoUnconstrained(omitted[0], omitted[1]));
        // which other clauses would also fire is immaterial: the transaction cannot be inferred. One thing is still
        // defined under file-order semantics: an assertion that stands before the second amount-less posting, on an
        // account that only plain amounts have touched so far in this transaction, is about a known balance.
        for i in 0..omitted[1] {
            let p = &ps[i];
            if p.amt.is_none() || p.bal == Bal::None {
                continue;
            }
            if ps[..i].iter().any(|q| q.acct == p.acct && q.amt.is_none()) {
                continue;
            }
            // an assignment standing before it (on any account) may itself be the first fault of the transaction (`= 0` on an
            // account holding several commodities) or depend on the amount-less posting: nothing is claimed then
            if ps[..i].iter().any(|q| q.is_assign()) {
                continue;
            }
            let mut acc = st.bal.get(p.acct).cloned().unwrap_or_default();
            for q in ps[..=i].iter().filter(|q| q.acct == p.acct) {
                let (v, c) = q.amt.as_ref().expect("plain amount");
                if !c.is_empty() {
                    qmap_add(&mut acc, c, Q::parse(v));
                }
            }
            qmap_clean(&mut acc);
            let holds = match &p.bal {
                Bal::Zero => acc.is_empty(),
                Bal::Val(v, c) => acc.get(*c).copied().unwrap_or(Q::ZERO) == Q::parse(v),
                Bal::None => true,
            };
            if !holds {
                reasons.push(Reject::AssertFalse(i, acc));
            }
        }
        return Exp::Reject(reasons);
    }
    if omitted_then_constraint_same_account(ps) == Some("assign") {
        // circular under file-order semantics
        return Exp::DontCare("omitted-then-assign-same-account");
    }
    // pass 1: deltas of all non-omitted postings, and the residual
    let mut run: BTreeMap<String, QMap> = st.bal.clone();
    let mut residual = QMap::new();
    let mut deltas: Vec<Option<QMap>> = vec![None; ps.len()];
    for (i, p) in ps.iter().enumerate() {
        match (&p.amt, &p.bal) {
            (None, Bal::None) => {}
            (None, b) => {
                let acc = run.entry(p.acct.to_string()).or_default();
                let mut delta = QMap::new();
                match b {
                    Bal::Zero => {
                        if acc.len() > 1 {
                            reasons.push(Reject::AssignZeroMulti(i));
                            return Exp::Reject(reasons);
                        }
                        for (c, v) in acc.clone() {
                            qmap_add(&mut delta, &c, v.neg());
                        }
                        acc.clear();
                    }
                    Bal::Val(v, c) => {
                        let cur = acc.get(*c).copied().unwrap_or(Q::ZERO);
                        let target = Q::parse(v);
                        qmap_add(&mut delta, c, target.sub(cur));
                        acc.insert(c.to_string(), target);
                        qmap_clean(acc);
                    }
                    Bal::None => unreachable!(),
                }
                for (c, v) in &delta {
                    qmap_add(&mut residual, c, *v);
                }
                deltas[i] = Some(delta);
            }
            (Some((v, c)), _) => {
                let v = Q::parse(v);
                if c.is_empty() {
                    if !v.is_zero() {
                        return Exp::DontCare("bare-nonzero-amount");
                    }
                    if p.ann != Ann::None {
                        return Exp::DontCare("bare-zero-with-exchange");
                    }
                    deltas[i] = Some(QMap::new());
                    continue;
                }
                let acc = run.entry(p.acct.to_string()).or_default();
                qmap_add(acc, c, v);
                qmap_clean(acc);
                let mut own = QMap::new();
                qmap_add(&mut own, c, v);
                deltas[i] = Some(own);
                let (bv, bc): (Q, &str) = match &p.ann {
                    Ann::None => (v, c),
                    Ann::Rate(r, rc) | Ann::LotRate(r, rc) | Ann::LotRateAndCost(r, rc, _) => {
                        let r = Q::parse(r);
                        if r.is_zero() || rc == c {
                            return Exp::DontCare("zero-or-same-commodity-exchange");
                        }
                        if let Ann::LotRateAndCost(_, _, w) = &p.ann {
                            if Q::parse(w).is_zero() {
                                return Exp::DontCare("zero-or-same-commodity-exchange");
                            }
                        }
                        (r.mul(v), rc)
                    }
                    Ann::Total(t, tc) | Ann::LotTotal(t, tc) => {
                        let t = Q::parse(t);
                        if t.is_zero() || tc == c {
                            return Exp::DontCare("zero-or-same-commodity-exchange");
                        }
                        if v.is_zero() {
                            return Exp::DontCare("zero-amount-with-total-price");
                        }
                        if t.signum() < 0 && v.signum() > 0 {
                            // `1 X @@ -2 Y`: "valued at its cost" could mean -2 Y (as written) or 2 Y (sign of the
                            // amount); with a negative amount both readings give -2 Y and the case is judged
                            return Exp::DontCare("negative-total-with-positive-amount");
                        }
                        (if v.signum() < 0 { t.abs().neg() } else { t.abs() }, tc)
                    }
                };
                qmap_add(&mut residual, bc, bv);
            }
        }
    }
    let inferred: Option<QMap> = omitted.first().map(|_| residual.iter().map(|(c, v)| (c.clone(), v.neg())).collect());
    if let Some(&o) = omitted.first() {
        deltas[o] = inferred.clone();
    }
    // pass 2: file order, with assertions
    let mut bal = st.bal.clone();
    for (i, p) in ps.iter().enumerate() {
        let acc = bal.entry(p.acct.to_string()).or_default();
        if p.is_assign() {
            match &p.bal {
                Bal::Zero => acc.clear(),
                Bal::Val(v, c) => {
                    acc.insert(c.to_string(), Q::parse(v));
                    qmap_clean(acc);
                }
                Bal::None => {}
            }
            continue;
        }
        for (c, v) in deltas[i].clone().expect("delta") {
            qmap_add(acc, &c, v);
        }
        qmap_clean(acc);
        if p.amt.is_some() {
            match &p.bal {
                Bal::None => {}
                Bal::Zero => {
                    if !acc.is_empty() {
                        reasons.push(Reject::AssertFalse(i, acc.clone()));
                    }
                }
                Bal::Val(v, c) => {
                    if acc.get(*c).copied().unwrap_or(Q::ZERO) != Q::parse(v) {
                        reasons.push(Reject::AssertFalse(i, acc.clone()));
                    }
                }
            }
        }
    }
    let mut implied = false;
    let mut open: Option<&'static str> = None;
    if omitted.is_empty() {
        let mut midpoint = false;
        let mut r = QMap::new();
        for (c, v) in &residual {
            let rv = match prec.get(c.as_str()) {
                Some(dp) => {
                    let (x, mid) = v.round_dp(*dp);
                    if mid {
                        midpoint = true;
                    }
                    x
                }
                None => *v,
            };
            r.insert(c.clone(), rv);
        }
        if midpoint {
            open = Some("rounding-midpoint");
        }
        let nz: Vec<(&String, &Q)> = r.iter().filter(|(_, v)| !v.is_zero()).collect();
        if nz.is_empty() {
        } else if nz.len() == 2 && nz[0].1.signum() != nz[1].1.signum() {
            // permitted, not required, by the statement
            if open.is_none() {
                open = Some("implied-exchange");
            }
            implied = true;
        } else if open.is_none() {
            let kind = match nz.len() {
                1 => "single-commodity-residual",
                2 => "same-sign-pair",
                _ => "three-or-more-commodities",
            };
            reasons.push(Reject::Unbalanced(kind, cleaned(&r)));
        }
    }
    if !reasons.is_empty() {
        return Exp::Reject(reasons);
    }
    for a in bal.values_mut() {
        qmap_clean(a);
    }
    bal.retain(|_, a| !a.is_empty());
    let amounts: Vec<QMap> = deltas.into_iter().map(|d| cleaned(&d.expect("delta"))).collect();
    if let Some(why) = open {
        return Exp::DontCareButIfAccepted { why, amounts, next: State { bal } };
    }
    Exp::Accept { amounts, next: State { bal }, implied_exchange: implied }
}

/// Render a list of transactions; returns (text, per-transaction (first_line, last_line, posting lines)).
/// `names` maps the reference account name to the name to write (aliases).
pub struct Rendered {
    pub text: String,
    pub txn_lines: Vec<(usize, usize)>,
    pub posting_lines: Vec<Vec<usize>>,
}

pub fn render(header: &str, txns: &[Txn], name_of: &dyn Fn(usize, usize, &str) -> String) -> Rendered {
    let mut text = String::from(header);
    let mut line = 1 + header.matches('\n').count();
    let mut txn_lines = vec![];
    let mut posting_lines = vec![];
    for (ti, t) in txns.iter().enumerate() {
        let first = line;
        text.push_str(&format!("2024/01/{:02} t{}\n", 1 + (ti % 27), ti));
        line += 1;
        let mut pl = vec![];
        for (pi, p) in t.iter().enumerate() {
            text.push_str(&p.render(&name_of(ti, pi, p.acct)));
            text.push('\n');
            pl.push(line);
            line += 1;
        }
        txn_lines.push((first, line - 1));
        posting_lines.push(pl);
        text.push('\n');
        line += 1;
    }
    Rendered { text, txn_lines, posting_lines }
}

pub fn prec_header(prec: &Prec) -> String {
    let mut s = String::new();
    for (c, dp) in prec {
        let fmt = if *dp == 0 { "1".to_string() } else { format!("1.{}", "0".repeat(*dp as usize)) };
        s.push_str(&format!("commodity {}\n  format {} {}\n\n", c, fmt, c));
    }
    s
}
