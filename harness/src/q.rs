//! Q: exact rational arithmetic for the reference models (i128 numerator / denominator).
//! Values in the alphabets are tiny; every operation is checked and overflow panics
//! (a harness bug, never silently wrong).

use rust_decimal::Decimal;
use std::cmp::Ordering;
use std::fmt;

#[derive(Clone, Copy, Debug)]
pub struct Q {
    n: i128,
    d: i128, // > 0
}

fn gcd(a: i128, b: i128) -> i128 {
    let (mut a, mut b) = (a.abs(), b.abs());
    while b != 0 {
        let t = a % b;
        a = b;
        b = t;
    }
    if a == 0 {
        1
    } else {
        a
    }
}

impl Q {
    pub const ZERO: Q = Q { n: 0, d: 1 };
    pub const ONE: Q = Q { n: 1, d: 1 };
    pub fn new(n: i128, d: i128) -> Q {
        assert!(d != 0, "Q: zero denominator");
        let g = gcd(n, d);
        let s = if d < 0 { -1 } else { 1 };
        Q { n: s * n / g, d: s * d / g }
    }
    pub fn int(n: i128) -> Q {
        Q { n, d: 1 }
    }
    /// Parse a plain decimal literal such as "-0.015" or "1,234.50".
    pub fn parse(s: &str) -> Q {
        let s: String = s.chars().filter(|c| *c != ',').collect();
        let (neg, body) = match s.strip_prefix('-') {
            Some(b) => (true, b.to_string()),
            None => (false, s.clone()),
        };
        let (ip, fp) = match body.split_once('.') {
            Some((a, b)) => (a.to_string(), b.to_string()),
            None => (body.clone(), String::new()),
        };
        let digits = format!("{}{}", ip, fp);
        let m: i128 = if digits.is_empty() { 0 } else { digits.parse().expect("Q::parse digits") };
        let q = Q::new(m, 10i128.checked_pow(fp.len() as u32).expect("Q::parse scale"));
        if neg {
            q.neg()
        } else {
            q
        }
    }
    pub fn from_decimal(d: Decimal) -> Q {
        Q::new(d.mantissa(), 10i128.pow(d.scale()))
    }
    pub fn is_zero(&self) -> bool {
        self.n == 0
    }
    pub fn signum(&self) -> i32 {
        self.n.signum() as i32
    }
    pub fn neg(self) -> Q {
        Q { n: -self.n, d: self.d }
    }
    pub fn abs(self) -> Q {
        Q { n: self.n.abs(), d: self.d }
    }
    pub fn add(self, o: Q) -> Q {
        let n = self.n.checked_mul(o.d).and_then(|a| o.n.checked_mul(self.d).and_then(|b| a.checked_add(b))).expect("Q add overflow");
        Q::new(n, self.d.checked_mul(o.d).expect("Q add overflow"))
    }
    pub fn sub(self, o: Q) -> Q {
        self.add(o.neg())
    }
    /// Exact difference, or None if it does not fit the representation.
    pub fn checked_sub(self, o: Q) -> Option<Q> {
        let a = self.n.checked_mul(o.d)?;
        let b = o.n.checked_mul(self.d)?;
        let d = self.d.checked_mul(o.d)?;
        Some(Q::new(a.checked_sub(b)?, d))
    }
    /// |self - o| as f64: exact subtraction when it fits, floating point otherwise.
    pub fn abs_diff_f64(self, o: Q) -> f64 {
        match self.checked_sub(o) {
            Some(d) => d.abs().to_f64(),
            None => (self.to_f64() - o.to_f64()).abs(),
        }
    }
    pub fn mul(self, o: Q) -> Q {
        let g1 = gcd(self.n, o.d);
        let g2 = gcd(o.n, self.d);
        Q::new((self.n / g1).checked_mul(o.n / g2).expect("Q mul overflow"), (self.d / g2).checked_mul(o.d / g1).expect("Q mul overflow"))
    }
    pub fn div(self, o: Q) -> Q {
        assert!(o.n != 0, "Q: division by zero");
        self.mul(Q::new(o.d, o.n))
    }
    /// Round to `dp` decimal places; returns (half-even result, is_exact_midpoint).
    pub fn round_dp(self, dp: u32) -> (Q, bool) {
        let scale = 10i128.pow(dp);
        // x = n/d ; want round(x*scale)/scale
        let num = self.n.checked_mul(scale).expect("Q round overflow");
        let fl = num.div_euclid(self.d);
        let rem = num.rem_euclid(self.d); // 0 <= rem < d
        let twice = rem * 2;
        let (r, mid) = match twice.cmp(&self.d) {
            Ordering::Less => (fl, false),
            Ordering::Greater => (fl + 1, false),
            Ordering::Equal => (if fl % 2 == 0 { fl } else { fl + 1 }, true),
        };
        (Q::new(r, scale), mid)
    }
    /// Does this value have a finite decimal expansion with at most `max_scale` places?
    pub fn decimal_scale(&self) -> Option<u32> {
        let mut d = self.d;
        let mut s = 0u32;
        let mut twos = 0;
        let mut fives = 0;
        while d % 2 == 0 {
            d /= 2;
            twos += 1;
        }
        while d % 5 == 0 {
            d /= 5;
            fives += 1;
        }
        if d != 1 {
            return None;
        }
        s += std::cmp::max(twos, fives);
        Some(s)
    }
    pub fn approx_eq_decimal(&self, got: Decimal, rel_tol_pow10: u32) -> bool {
        // |self - got| <= |self| * 10^-tol  (plus absolute 10^-27 slack)
        let g = Q::from_decimal(got);
        // a difference that does not even fit the exact representation is certainly not "approximately equal"
        let fits = |a: &Q, b: &Q| a.n.checked_mul(b.d).is_some() && b.n.checked_mul(a.d).is_some() && a.d.checked_mul(b.d).is_some();
        if !fits(self, &g) {
            return (self.to_f64() - g.to_f64()).abs() <= self.to_f64().abs() * 1e-15;
        }
        let diff = self.sub(g).abs();
        if diff.is_zero() {
            return true;
        }
        let tol = self.abs().mul(Q::new(1, 10i128.pow(rel_tol_pow10)));
        let abs_slack = Q::new(1, 10i128.pow(26));
        diff.cmp(&tol) != Ordering::Greater || diff.cmp(&abs_slack) != Ordering::Greater
    }
    pub fn cmp(&self, o: &Q) -> Ordering {
        match (self.n.checked_mul(o.d), o.n.checked_mul(self.d)) {
            (Some(a), Some(b)) => a.cmp(&b),
            // astronomically different magnitudes: floating point is enough to order them
            _ => self.to_f64().partial_cmp(&o.to_f64()).unwrap_or(Ordering::Equal),
        }
    }
    pub fn to_f64(&self) -> f64 {
        self.n as f64 / self.d as f64
    }
}
impl PartialEq for Q {
    fn eq(&self, o: &Q) -> bool {
        self.n == o.n && self.d == o.d
    }
}
impl Eq for Q {}
impl PartialOrd for Q {
    fn partial_cmp(&self, o: &Q) -> Option<Ordering> {
        Some(Q::cmp(self, o))
    }
}
impl Ord for Q {
    fn cmp(&self, o: &Q) -> Ordering {
        Q::cmp(self, o)
    }
}
impl std::hash::Hash for Q {
    fn hash<H: std::hash::Hasher>(&self, h: &mut H) {
        self.n.hash(h);
        self.d.hash(h);
    }
}
impl fmt::Display for Q {
    fn fmt(&self, f: &mut fmt::Formatter<'_>) -> fmt::Result {
        if self.d == 1 {
            write!(f, "{}", self.n)
        } else if let Some(s) = self.decimal_scale() {
            if s <= 28 {
                let m = self.n * (10i128.pow(s) / self.d);
                let neg = m < 0;
                let digits = format!("{:0>width$}", m.abs(), width = s as usize + 1);
                let (ip, fp) = digits.split_at(digits.len() - s as usize);
                return write!(f, "{}{}.{}", if neg { "-" } else { "" }, ip, fp);
            }
            write!(f, "{}/{}", self.n, self.d)
        } else {
            write!(f, "{}/{}", self.n, self.d)
        }
    }
}

/// Commodity -> value map with exact arithmetic; zero entries are kept unless `clean`ed.
pub type QMap = std::collections::BTreeMap<String, Q>;

pub fn qmap_add(m: &mut QMap, c: &str, v: Q) {
    let e = m.entry(c.to_string()).or_insert(Q::ZERO);
    *e = e.add(v);
}
pub fn qmap_clean(m: &mut QMap) {
    m.retain(|_, v| !v.is_zero());
}
pub fn qmap_show(m: &QMap) -> String {
    if m.is_empty() {
        return "0".into();
    }
    m.iter().map(|(c, v)| format!("{} {}", v, c)).collect::<Vec<_>>().join(" + ")
}
