//! okv — bounded-exhaustive exploration of okane against reference models.
//!
//!   okv check <ID> <quick|thorough>
//!   okv replay <replay-file>
//!   okv list
//! internal: okv worker|describe|only ...

mod bfs;
mod checks;
mod fw;
mod oka;
mod q;
mod refledger;

use std::collections::BTreeSet;
use std::path::PathBuf;

use fw::Tier;

fn tier_of(s: &str) -> Tier {
    match s {
        "quick" => Tier::Quick,
        "thorough" => Tier::Thorough,
        _ => fw::machinery_error("tier must be quick|thorough"),
    }
}

fn find(id: &str) -> &'static fw::CheckDef {
    checks::registry().iter().find(|c| c.id == id).unwrap_or_else(|| fw::machinery_error(&format!("unknown check {}", id)))
}

fn main() {
    let a: Vec<String> = std::env::args().collect();
    if a.len() < 2 {
        fw::machinery_error("usage: okv check <ID> <quick|thorough> | replay <file> | list");
    }
    let code = match a[1].as_str() {
        "list" => {
            for c in checks::registry() {
                println!("{}\t{}", c.id, c.technique);
            }
            0
        }
        "check" => {
            let tier = std::env::var("VERIF_TIER").ok().filter(|_| a.len() < 4).map(|s| tier_of(&s)).unwrap_or_else(|| tier_of(a.get(3).map(|s| s.as_str()).unwrap_or("quick")));
            fw::check_main(find(&a[2]), tier)
        }
        "worker" => {
            let skip: BTreeSet<u64> = a[8].split(',').filter(|s| !s.is_empty()).map(|s| s.parse().unwrap()).collect();
            fw::worker_main(find(&a[2]), tier_of(&a[3]), a[4].parse().unwrap(), a[5].parse().unwrap(), &PathBuf::from(&a[6]), &PathBuf::from(&a[7]), skip)
        }
        "describe" => fw::describe_main(find(&a[2]), tier_of(&a[3]), a[4].parse().unwrap()),
        "only" => fw::only_main(find(&a[2]), tier_of(&a[3]), a[4].parse().unwrap()),
        "replay" => {
            let s = std::fs::read_to_string(&a[2]).unwrap_or_else(|_| fw::machinery_error("cannot read replay file"));
            let rf: fw::ReplayFile = serde_json::from_str(&s).unwrap_or_else(|_| fw::machinery_error("bad replay file"));
            let def = find(&rf.property);
            let tier = tier_of(&rf.tier);
            let d = fw::describe_case(def, tier, rf.case_index);
            if d != rf.input {
                eprintln!("replay file is stale: case {} of {} {} now describes a different input", rf.case_index, rf.property, rf.tier);
                std::process::exit(2);
            }
            println!("replaying {} case {} (recorded sig: {})", rf.property, rf.case_index, rf.sig);
            let (kind, out) = fw::run_only(def, tier, rf.case_index, std::time::Duration::from_secs(60));
            println!("process: {}\n{}", kind, out);
            if kind != "ok" || out.contains("verdict: VIOLATION") {
                1
            } else {
                0
            }
        }
        _ => fw::machinery_error("unknown command"),
    };
    std::process::exit(code);
}
