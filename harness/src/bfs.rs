//! Explicit-state breadth-first search over *reference* states. Every worker runs the same
//! deterministic search; the real code is executed per edge by the caller (sharded via Ctx::case).

use std::collections::BTreeMap;

pub struct Bfs<S> {
    /// states in discovery order, with the action-index history that first reached them
    pub states: Vec<(S, Vec<usize>)>,
    pub index: BTreeMap<S, usize>,
    pub edges: u64,
    pub max_depth: usize,
}

/// `step(state, action_index)` returns the successor state if the reference accepts the action.
/// `on_edge(history_of_source, source, action_index, successor)` is called for every edge, in a
/// deterministic order, including edges the reference rejects (successor = None) and edges that
/// lead to an already known state.
pub fn bfs<S: Ord + Clone>(init: S, depth: usize, nactions: usize, mut step: impl FnMut(&S, usize) -> Option<S>, mut on_edge: impl FnMut(&[usize], &S, usize, Option<&S>)) -> Bfs<S> {
    let mut b = Bfs { states: vec![(init.clone(), vec![])], index: BTreeMap::new(), edges: 0, max_depth: 0 };
    b.index.insert(init, 0);
    let mut frontier = vec![0usize];
    for d in 0..depth {
        let mut next = vec![];
        for si in frontier {
            let (s, hist) = b.states[si].clone();
            for a in 0..nactions {
                let succ = step(&s, a);
                b.edges += 1;
                on_edge(&hist, &s, a, succ.as_ref());
                if let Some(n) = succ {
                    if !b.index.contains_key(&n) {
                        let mut h = hist.clone();
                        h.push(a);
                        b.index.insert(n.clone(), b.states.len());
                        b.states.push((n, h));
                        next.push(b.states.len() - 1);
                        b.max_depth = d + 1;
                    }
                }
            }
        }
        if next.is_empty() {
            break;
        }
        frontier = next;
    }
    b
}
