//! Adapters that drive the real okane code and project its results into plain data.

use std::collections::{BTreeMap, HashMap};
use std::path::{Path, PathBuf};

use bumpalo::Bump;
use chrono::NaiveDate;
use okane_core::{load, report};

use crate::q::{QMap, Q};

pub const ROOT: &str = "/v/main.ledger";

pub fn date(y: i32, m: u32, d: u32) -> NaiveDate {
    NaiveDate::from_ymd_opt(y, m, d).unwrap()
}

pub fn amount_to_qmap(a: &report::Amount<'_>) -> QMap {
    let mut m = QMap::new();
    for s in a.iter() {
        // SingleAmount's fields are crate-private: read it through Display ("<value> <commodity>").
        let t = format!("{}", s);
        let (v, c) = t.split_once(' ').expect("SingleAmount display");
        let d: rust_decimal::Decimal = v.parse().expect("SingleAmount value");
        let e = m.entry(c.to_string()).or_insert(Q::ZERO);
        *e = e.add(Q::from_decimal(d));
    }
    m
}

/// Same, but keeps the Decimal (scale matters for some checks).
pub fn amount_to_decmap(a: &report::Amount<'_>) -> BTreeMap<String, rust_decimal::Decimal> {
    let mut m = BTreeMap::new();
    for s in a.iter() {
        let t = format!("{}", s);
        let (v, c) = t.split_once(' ').expect("SingleAmount display");
        m.insert(c.to_string(), v.parse().expect("SingleAmount value"));
    }
    m
}

pub fn single_to_pair(s: &report::SingleAmount<'_>) -> (String, Q) {
    let t = format!("{}", s);
    let (v, c) = t.split_once(' ').expect("SingleAmount display");
    (c.to_string(), Q::from_decimal(v.parse().expect("value")))
}

pub type Balances = BTreeMap<String, QMap>;

pub fn balance_to_map(b: &report::Balance<'_>) -> Balances {
    let mut out = Balances::new();
    for (acc, amt) in b.clone().into_vec() {
        out.insert(acc.as_str().to_string(), amount_to_qmap(&amt));
    }
    out
}

/// Drop zero commodities and empty accounts.
pub fn clean_balances(b: &Balances) -> Balances {
    let mut out = Balances::new();
    for (a, m) in b {
        let mm: QMap = m.iter().filter(|(_, v)| !v.is_zero()).map(|(c, v)| (c.clone(), *v)).collect();
        if !mm.is_empty() {
            out.insert(a.clone(), mm);
        }
    }
    out
}

#[derive(Clone, Debug, PartialEq, Eq)]
pub struct PostingView {
    pub account: String,
    pub amount: QMap,
    pub converted: Option<(String, Q)>,
}
#[derive(Clone, Debug, PartialEq, Eq)]
pub struct TxnView {
    pub date: NaiveDate,
    pub postings: Vec<PostingView>,
}

pub fn txn_views(l: &report::query::Ledger<'_>) -> Vec<TxnView> {
    l.transactions()
        .map(|t| TxnView {
            date: t.date,
            postings: t.postings.iter().map(|p| PostingView { account: p.account.as_str().to_string(), amount: amount_to_qmap(&p.amount), converted: p.converted_amount.as_ref().map(single_to_pair) }).collect(),
        })
        .collect()
}

#[derive(Clone, Debug)]
pub struct ErrView {
    /// "load" | "pricedb" | "bookkeep"
    pub kind: &'static str,
    /// Display of the top error (for BookKeep: the rendered snippet)
    pub rendered: String,
    /// Debug of the BookKeepError variant name, or the source chain joined
    pub chain: Vec<String>,
    pub variant: String,
}

pub fn err_view(e: &report::ReportError) -> ErrView {
    use std::error::Error;
    let kind = match e {
        report::ReportError::Load(_) => "load",
        report::ReportError::PriceDB(_) => "pricedb",
        report::ReportError::BookKeep(..) => "bookkeep",
    };
    let mut chain = vec![];
    let mut cur: Option<&dyn Error> = e.source();
    while let Some(c) = cur {
        chain.push(c.to_string());
        cur = c.source();
    }
    let variant = match e {
        report::ReportError::BookKeep(b, _) => {
            let d = format!("{:?}", b);
            d.split(|c: char| !c.is_alphanumeric()).next().unwrap_or("").to_string()
        }
        report::ReportError::Load(l) => {
            let d = format!("{:?}", l);
            format!("Load::{}", d.split(|c: char| !c.is_alphanumeric()).next().unwrap_or(""))
        }
        report::ReportError::PriceDB(l) => {
            let d = format!("{:?}", l);
            format!("PriceDB::{}", d.split(|c: char| !c.is_alphanumeric()).next().unwrap_or(""))
        }
    };
    ErrView { kind, rendered: e.to_string(), chain, variant }
}

pub fn fake_loader(files: &[(&str, &str)], root: &str) -> load::Loader<load::FakeFileSystem> {
    let mut m: HashMap<PathBuf, Vec<u8>> = HashMap::new();
    for (p, t) in files {
        m.insert(PathBuf::from(p), t.as_bytes().to_vec());
    }
    load::Loader::new(PathBuf::from(root), load::FakeFileSystem::from(m)).with_error_renderer(annotate_snippets::Renderer::plain())
}

/// Process `files` (in-memory file system) and hand the result to `f`.
pub fn with_ledger<T>(
    files: &[(&str, &str)],
    root: &str,
    price_db: Option<&Path>,
    f: impl for<'a, 'c> FnOnce(Result<(&'a mut report::query::Ledger<'c>, &'a report::ReportContext<'c>), ErrView>) -> T,
) -> T {
    let arena = Bump::new();
    let mut ctx = report::ReportContext::new(&arena);
    let loader = fake_loader(files, root);
    let opts = report::ProcessOptions { price_db_path: price_db.map(|p| p.to_path_buf()) };
    let r = report::process(&mut ctx, loader, &opts);
    let out = match r {
        Ok(mut l) => f(Ok((&mut l, &ctx))),
        Err(e) => f(Err(err_view(&e))),
    };
    out
}

/// Convenience: process one text and return cleaned default balances and transactions.
pub fn process_text(text: &str) -> Result<(Balances, Vec<TxnView>), ErrView> {
    with_ledger(&[(ROOT, text)], ROOT, None, |r| match r {
        Ok((l, ctx)) => {
            let tv = txn_views(l);
            let b = l.balance(ctx, &report::query::BalanceQuery::default()).expect("default balance cannot fail");
            Ok((clean_balances(&balance_to_map(&b)), tv))
        }
        Err(e) => Err(e),
    })
}

/// Parse "path:line:col" from a rendered annotate-snippets message (` --> path:line:col`).
pub fn rendered_location(rendered: &str) -> Option<(String, usize, usize)> {
    for l in rendered.lines() {
        if let Some(pos) = l.find("--> ") {
            let rest = l[pos + 4..].trim();
            let mut it = rest.rsplitn(3, ':');
            let col = it.next()?.parse().ok()?;
            let line = it.next()?.parse().ok()?;
            let path = it.next()?.to_string();
            return Some((path, line, col));
        }
    }
    None
}

/// Line numbers shown in the gutter of a rendered snippet ("12 | text").
pub fn gutter_lines(rendered: &str) -> Vec<usize> {
    let mut v = vec![];
    for l in rendered.lines() {
        let t = l.trim_start();
        if let Some((num, _)) = t.split_once(" |") {
            if let Ok(n) = num.trim().parse::<usize>() {
                v.push(n);
            }
        }
    }
    v
}

/// A per-process scratch directory under /verif/target/scratch (never /tmp).
pub fn scratch_dir(tag: &str) -> PathBuf {
    let p = crate::fw::scratch_root().join(format!("{}-{}", tag, std::process::id()));
    std::fs::create_dir_all(&p).expect("scratch dir");
    p
}
