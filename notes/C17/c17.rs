//! C17 — rewrite rules and layered configuration resolve as documented.
//!
//! Three exhaustive families, all run on the REAL okane import code and compared with a small reference:
//!
//!  A. configuration layering: every list of <= 3 (thorough: additionally every list of 4 over a reduced
//!     alphabet) YAML documents from a 40-document alphabet (5 `path`s x 8 bodies) x 4 file paths, observed
//!     through `config::load_from_yaml` + `ConfigSet::select`.
//!  A2. path relation: every list of 1-2 (thorough 1-3) documents from 9 `path`s x 3 bodies x 4 file paths as given on the
//!     command line (bare relative, relative with directory, absolute, `./`), the paths chosen by their RELATION to the
//!     file path: equal to it, proper suffix / prefix / infix, longer than it, differing in case or by a trailing
//!     slash, empty (left open). A path that IS the whole file path occurs in it.
//!  B. rule folding: every rule list of length <= 3 (thorough <= 4) from a 13-rule alphabet x 20 records through
//!     the CSV importer, from a 16-rule alphabet (the same 13 + 3 with capturing `category` fields) x 16 records
//!     through the Viseca importer, and from a 15-rule camt alphabet x 10 records through the ISO Camt053 importer.
//!     Records include the value classes a short alphabet lacks: a field that is ABSENT (camt053 entry without
//!     <Domn> block, without related parties, without transaction details / additional info / remittance info; empty
//!     CSV category cell; Viseca entry without category line), a value containing a LINE BREAK (quoted CSV cell,
//!     two-line AddtlTxInf), a leading blank, regex metacharacters; patterns with `^`, `$`, both, neither.
//!     The Viseca / Camt053 alphabets contain OR-lists of 2-3 elements whose 2-field AND elements CAPTURE in a
//!     field that is applied early and FAIL (or succeed) in a later one, followed by elements that match: a failed
//!     element must contribute nothing. Observed on the PRINTED transaction
//!     (`load_from_yaml` -> `select` -> `import::import` -> `Txn::to_double_entry` -> `DisplayContext::as_display`,
//!     i.e. the body of `ImportCmd::run` without the file system).
//!  B2. camt053 field coverage: one rule per (matcher field, value token) for all 9 text fields (creditor / debtor name,
//!     ultimate creditor / debtor, creditor / debtor account id, remittance info, transaction info, entry info) and per (domain
//!     field, code), x 2 records whose fields all hold DIFFERENT values in swapped positions, so that reading a sibling
//!     field (creditor vs debtor, ultimate vs plain) flips the match.
//!  C. end to end: every ordered pair of rules split over two layered documents (`bank/`, `bank/acct`), both
//!     document orders, x 7 records, through `okane::cmd::ImportCmd::run` on real files; plus every rule x 7 records with
//!     a second document whose `path` is exactly the source path given to ImportCmd.
//!
//! The reference is NON-DETERMINISTIC where the statement is silent: it returns the SET of acceptable
//! results (tie order of equal-length paths; whole-override vs. per-key merge of `format`; which of several
//! matching OR elements supplies the captures; which of two fields of one element capturing the same name wins;
//! whether the `payee` field of an element sees the payee captured by a sibling field; whether blanks around a
//! field value take part in matching). One acceptable result
//! => MUST; several => the observation
//! must still be one of them (else violation), and the case is counted DON'T-CARE.

use std::cell::RefCell;
use std::collections::{BTreeSet, HashMap};
use std::path::{Path, PathBuf};

use okane::import::{self, config};
use okane_core::syntax::display::DisplayContext;

use crate::fw::{CheckDef, Ctx, Outcome};

pub const DEF: CheckDef = CheckDef {
    id: "C17",
    run,
    technique: "bounded-exhaustive enumeration of configuration-document lists x file paths (through ConfigSet::select) and of rewrite-rule lists x records (through the real CSV / Viseca / ISO-Camt053 importers and the transaction printer, plus ImportCmd::run on real files), each compared with a set-valued reference model of the documented merge and fold",
    rule: "case = (document list, file path) [family A], (importer, rule list, record) [family B] or (rule pair split over two layered documents, document order, record) [family C]. states = cases executed, transitions = real-code executions compared with the reference; a case is MUST when the reference admits exactly one result, DON'T-CARE (observation still required to be one of the admitted results) when the statement leaves several open",
    assumptions: &[
        "the reference matches patterns with the `regex` crate (search semantics, case-insensitive, default dialect: `^` / `$` anchor at the start / end of the field value, not at inner line breaks - constant FIELD_ANCHORS_IS_MUST): regex semantics themselves are trusted, not verified",
        "a matcher on a field the record does not have (no <Domn> block, no related party, no additional info) does not match; whether blanks around a field value take part in matching is left open (both readings admitted)",
        "case-insensitive matching is taken from the property's anchored mechanism (extract.rs regex_matcher); the statement and doc/import.ja.md do not mention it (constant CASE_FOLD_IS_MUST)",
        "alphabets avoid empty / non-participating capture groups and a rule with both `payee:` and a payee capture; AND elements with several capturing fields, or with a `payee` field next to a payee-capturing field, ARE included (Viseca / Camt053; okane applies the fields of an element in the fixed order of RewriteField since commit f3b005d) and are judged with a set-valued reference: an element fails iff some field fails under every reading, a failed element contributes no captures, and where two readings of a MATCHING element differ both are admitted (DON'T-CARE)",
        "the CSV alphabet has no capture group in `category` (the CSV importer deliberately discards captures of category / secondary_commodity; not judged)",
        "`the file's path` is the path as given to select / ImportCmd (no canonicalisation); a document `path` occurs in it iff it is a substring, equality included, case-sensitive (doc: substring comparison); an empty `path` is left open",
        "camt053: the payee printed when no rule set one is not judged; for records carrying an AcctSvcrRef the printed code is judged (MUST be the capture) whenever a matching rule captures a code, and not judged (the reference is the importer's default, outside the statement) when none does",
    ],
    shards: 64,
    hang_s: 20,
    single_worker: false,
};

/// Cases whose verdict depends on case-insensitive matching are MUST (see assumptions). Set to false to make them DON'T-CARE.
const CASE_FOLD_IS_MUST: bool = true;

/// `^` and `$` anchor at the start / end of the FIELD VALUE (default dialect of the `regex` crate, which the documentation's own
/// example `^Visa… (?P<payee>.*)$` relies on), not at every line of a value containing line breaks. Set to false to make the cases
/// whose verdict depends on that DON'T-CARE.
const FIELD_ANCHORS_IS_MUST: bool = true;

/// Which of several matching elements of an OR-list supplies the captures is left open by the statement
/// (false: any matching element is admitted, such cases are DON'T-CARE). Set to true to demand okane's current
/// behaviour, "the first matching element", as a MUST.
const OR_FIRST_ELEMENT_WINS: bool = false;

// =============================================================================================
// Rule model shared by all families
// =============================================================================================

#[derive(Clone, Copy, PartialEq, Eq, Debug)]
enum F {
    Payee,
    Category,
    CreditorName,
    DebtorName,
    AddtlTxInfo,
    AddtlEntryInfo,
    RmtInfo,
    CreditorAccountId,
    DebtorAccountId,
    UltimateCreditorName,
    UltimateDebtorName,
    DomainCode,
    DomainFamily,
    DomainSubFamily,
}

impl F {
    fn yaml(self) -> &'static str {
        match self {
            F::Payee => "payee",
            F::Category => "category",
            F::CreditorName => "creditor_name",
            F::DebtorName => "debtor_name",
            F::AddtlTxInfo => "additional_transaction_info",
            F::AddtlEntryInfo => "additional_entry_info",
            F::RmtInfo => "remittance_unstructured_info",
            F::CreditorAccountId => "creditor_account_id",
            F::DebtorAccountId => "debtor_account_id",
            F::UltimateCreditorName => "ultimate_creditor_name",
            F::UltimateDebtorName => "ultimate_debtor_name",
            F::DomainCode => "domain_code",
            F::DomainFamily => "domain_family",
            F::DomainSubFamily => "domain_sub_family",
        }
    }
    fn cfg(self) -> config::RewriteField {
        match self {
            F::Payee => config::RewriteField::Payee,
            F::Category => config::RewriteField::Category,
            F::CreditorName => config::RewriteField::CreditorName,
            F::DebtorName => config::RewriteField::DebtorName,
            F::AddtlTxInfo => config::RewriteField::AdditionalTransactionInfo,
            F::AddtlEntryInfo => config::RewriteField::AdditionalEntryInfo,
            F::RmtInfo => config::RewriteField::RemittanceUnstructuredInfo,
            F::CreditorAccountId => config::RewriteField::CreditorAccountId,
            F::DebtorAccountId => config::RewriteField::DebtorAccountId,
            F::UltimateCreditorName => config::RewriteField::UltimateCreditorName,
            F::UltimateDebtorName => config::RewriteField::UltimateDebtorName,
            F::DomainCode => config::RewriteField::DomainCode,
            F::DomainFamily => config::RewriteField::DomainFamily,
            F::DomainSubFamily => config::RewriteField::DomainSubFamily,
        }
    }
    /// Domain codes are constants compared for equality, everything else is a regular expression.
    fn is_const(self) -> bool {
        matches!(self, F::DomainCode | F::DomainFamily | F::DomainSubFamily)
    }
}

type Elem = &'static [(F, &'static str)];

struct RuleDef {
    name: &'static str,
    /// rendered as a YAML list of elements (OR-list) rather than a single map
    or_list: bool,
    elems: &'static [Elem],
    pending: bool,
    payee: Option<&'static str>,
    account: Option<&'static str>,
}

fn has_group(pat: &str, name: &str) -> bool {
    pat.contains(&format!("(?P<{}>", name))
}

/// Alphabet invariants (see DEF.assumptions). `strict`: additionally no element may capture the same name twice,
/// capture outside the `payee` field, or combine a `payee` field with a payee-capturing sibling (CSV alphabet,
/// where every case is then a MUST).
fn check_alphabet(rules: &[&RuleDef], strict: bool) {
    for r in rules {
        assert!(!r.elems.is_empty(), "harness bug: rule {} has no element", r.name);
        assert!(r.or_list || r.elems.len() == 1, "harness bug: rule {} map form with several elements", r.name);
        for e in r.elems {
            assert!(!e.is_empty(), "harness bug: rule {} empty element", r.name);
            let payee_caps = e.iter().filter(|(f, p)| !f.is_const() && has_group(p, "payee")).count();
            let code_caps = e.iter().filter(|(f, p)| !f.is_const() && has_group(p, "code")).count();
            assert!(!(r.payee.is_some() && payee_caps > 0), "harness bug: rule {} has payee: and a payee capture", r.name);
            if strict {
                assert!(payee_caps <= 1 && code_caps <= 1, "harness bug: rule {} element captures twice", r.name);
                let sibling_caps = e.iter().any(|(f, p)| *f != F::Payee && !f.is_const() && (has_group(p, "payee") || has_group(p, "code")));
                assert!(!sibling_caps, "harness bug: rule {} captures outside the payee field", r.name);
            }
            for (i, (f, _)) in e.iter().enumerate() {
                assert!(e[..i].iter().all(|(g, _)| g != f), "harness bug: rule {} repeats a field", r.name);
            }
        }
    }
}

/// The rule as an item of a YAML `rewrite:` list, indented by two spaces.
fn rule_yaml(r: &RuleDef) -> String {
    let mut s = String::new();
    s.push_str("  - matcher:\n");
    for e in r.elems {
        for (i, (f, p)) in e.iter().enumerate() {
            // single-quoted YAML scalars have no escapes (patterns contain no single quote)
            if r.or_list {
                s.push_str(&format!("      {} {}: '{}'\n", if i == 0 { "-" } else { " " }, f.yaml(), p));
            } else {
                s.push_str(&format!("      {}: '{}'\n", f.yaml(), p));
            }
        }
    }
    if r.pending {
        s.push_str("    pending: true\n");
    }
    if let Some(p) = r.payee {
        s.push_str(&format!("    payee: '{}'\n", p));
    }
    if let Some(a) = r.account {
        s.push_str(&format!("    account: '{}'\n", a));
    }
    s
}

fn rewrite_yaml(rules: &[&RuleDef]) -> String {
    if rules.is_empty() {
        return "rewrite: []\n".to_string();
    }
    let mut s = String::from("rewrite:\n");
    for r in rules {
        s.push_str(&rule_yaml(r));
    }
    s
}

/// The rule as okane's own configuration value (all fields of these types are public).
fn rule_cfg(r: &RuleDef) -> config::RewriteRule {
    let fm = |e: &Elem| config::FieldMatcher { fields: e.iter().map(|(f, p)| (f.cfg(), p.to_string())).collect() };
    config::RewriteRule {
        matcher: if r.or_list { config::RewriteMatcher::Or(r.elems.iter().map(fm).collect()) } else { config::RewriteMatcher::Field(fm(&r.elems[0])) },
        pending: r.pending,
        payee: r.payee.map(str::to_string),
        account: r.account.map(str::to_string),
        conversion: None,
    }
}

// =============================================================================================
// Family A — configuration layering
// =============================================================================================

/// Indices 0..A_MAIN_PATHS: the main layering alphabet. The rest: family A2, the RELATION between a document's `path` and the
/// given file path (see A2_FILES): equal to it, proper suffix / prefix / infix, longer than it, differing in case or by a
/// trailing slash, empty.
const A_PATHS: [&str; 14] = ["x", "card", "2024", "bank/", "bank/card", "bank.csv", "data/bank.csv", "bank", ".csv", "ank.c", "Bank.csv", "bank.csv/", "data/", ""];
const A_MAIN_PATHS: usize = 5;
const A_FILES: [&str; 4] = ["/data/bank/card/2024.csv", "/data/bank/2024.csv", "/data/card.csv", "/data/other.csv"];
/// File paths as given on the command line: bare relative, relative with directory, absolute, `./`-relative. The statement's
/// "the file's path" is taken to be the path AS GIVEN (doc: part of the input file's path); `select` receives it verbatim.
const A2_FILES: [&str; 4] = ["bank.csv", "data/bank.csv", "/abs/data/bank.csv", "./bank.csv"];
const A2_BODIES: [usize; 3] = [1, 3, 6];

#[derive(Clone, Copy, PartialEq, Eq, PartialOrd, Ord, Debug)]
enum Commodity {
    Plain(&'static str),
    Spec { primary: &'static str, disabled: bool },
}

#[derive(Clone, Copy, PartialEq, Eq, PartialOrd, Ord, Debug)]
struct Fmt {
    date: Option<&'static str>,
    delimiter: Option<&'static str>,
    skip_head: Option<i32>,
}

struct Body {
    name: &'static str,
    encoding: Option<&'static str>,
    account: Option<&'static str>,
    account_type: Option<&'static str>,
    operator: Option<&'static str>,
    commodity: Option<Commodity>,
    format: Option<Fmt>,
    rules: &'static [usize],
}

const A_RULES: [RuleDef; 3] = [
    RuleDef { name: "ra", or_list: false, elems: &[&[(F::Payee, "foo")]], pending: false, payee: None, account: Some("Expenses:Foo") },
    RuleDef { name: "rb", or_list: true, elems: &[&[(F::Payee, "bar")], &[(F::Category, "baz"), (F::Payee, "qux")]], pending: true, payee: Some("Bar Inc"), account: Some("Expenses:Bar") },
    RuleDef { name: "rc", or_list: false, elems: &[&[(F::Payee, r"(?P<code>\d+) (?P<payee>.*)")]], pending: false, payee: None, account: None },
];

const A_BODIES: [Body; 8] = [
    Body { name: "empty", encoding: None, account: None, account_type: None, operator: None, commodity: None, format: None, rules: &[] },
    Body { name: "full1", encoding: Some("UTF-8"), account: Some("Assets:A1"), account_type: Some("asset"), operator: Some("Op1"), commodity: Some(Commodity::Plain("JPY")), format: Some(Fmt { date: Some("%Y/%m/%d"), delimiter: None, skip_head: None }), rules: &[] },
    Body { name: "full2", encoding: Some("Shift_JIS"), account: Some("Liabilities:A2"), account_type: Some("liability"), operator: Some("Op2"), commodity: Some(Commodity::Spec { primary: "CHF", disabled: false }), format: Some(Fmt { date: Some("%d.%m.%Y"), delimiter: Some(";"), skip_head: None }), rules: &[0] },
    Body { name: "acct3", encoding: None, account: Some("Assets:A3"), account_type: None, operator: None, commodity: None, format: None, rules: &[1, 2] },
    Body { name: "base4", encoding: Some("UTF-8"), account: None, account_type: Some("asset"), operator: None, commodity: Some(Commodity::Plain("USD")), format: None, rules: &[0] },
    Body { name: "fmt5", encoding: None, account: None, account_type: None, operator: Some("Op5"), commodity: Some(Commodity::Spec { primary: "EUR", disabled: true }), format: Some(Fmt { date: Some("%Y-%m-%d"), delimiter: None, skip_head: Some(1) }), rules: &[] },
    Body { name: "liab6", encoding: None, account: Some("Liabilities:A6"), account_type: Some("liability"), operator: None, commodity: None, format: None, rules: &[1] },
    Body { name: "rules7", encoding: None, account: None, account_type: None, operator: None, commodity: None, format: None, rules: &[2, 0] },
];

/// Reduced alphabet for the length-4 lists of the thorough tier.
const A_PATHS_4: [usize; 4] = [1, 2, 3, 4];
const A_BODIES_4: [usize; 5] = [1, 2, 3, 5, 7];

#[derive(Clone, Copy, PartialEq, Eq, Debug)]
struct Doc {
    path: usize,
    body: usize,
}

fn doc_yaml(d: Doc) -> String {
    let b = &A_BODIES[d.body];
    let mut s = format!("path: \"{}\"\n", A_PATHS[d.path]);
    if let Some(v) = b.encoding {
        s.push_str(&format!("encoding: {}\n", v));
    }
    if let Some(v) = b.account {
        s.push_str(&format!("account: {}\n", v));
    }
    if let Some(v) = b.account_type {
        s.push_str(&format!("account_type: {}\n", v));
    }
    if let Some(v) = b.operator {
        s.push_str(&format!("operator: {}\n", v));
    }
    match b.commodity {
        None => {}
        Some(Commodity::Plain(c)) => s.push_str(&format!("commodity: {}\n", c)),
        Some(Commodity::Spec { primary, disabled }) => {
            s.push_str(&format!("commodity:\n  primary: {}\n", primary));
            if disabled {
                s.push_str("  conversion:\n    disabled: true\n");
            }
        }
    }
    if let Some(f) = b.format {
        s.push_str("format:\n");
        if let Some(v) = f.date {
            s.push_str(&format!("  date: \"{}\"\n", v));
        }
        if let Some(v) = f.delimiter {
            s.push_str(&format!("  delimiter: \"{}\"\n", v));
        }
        if let Some(v) = f.skip_head {
            s.push_str(&format!("  skip:\n    head: {}\n", v));
        }
    }
    if !b.rules.is_empty() {
        let rs: Vec<&RuleDef> = b.rules.iter().map(|&i| &A_RULES[i]).collect();
        s.push_str(&rewrite_yaml(&rs));
    }
    s
}

fn docs_yaml(docs: &[Doc]) -> String {
    docs.iter().map(|d| doc_yaml(*d)).collect::<Vec<_>>().join("---\n")
}

#[derive(Clone, PartialEq, Eq, PartialOrd, Ord, Debug, Default)]
struct Merged {
    encoding: Option<&'static str>,
    account: Option<&'static str>,
    account_type: Option<&'static str>,
    operator: Option<&'static str>,
    commodity: Option<Commodity>,
    format: Option<Fmt>,
    rules: Vec<usize>,
}

/// Merge in the given order: later overrides scalars, rules are concatenated.
/// `deep_format`: read "override" of the structured `format` setting per key instead of as a whole
/// (the statement speaks of scalar settings only; doc/import.ja.md says "rewritten").
fn merge(order: &[Doc], deep_format: bool) -> Merged {
    let mut m = Merged::default();
    for d in order {
        let b = &A_BODIES[d.body];
        m.encoding = b.encoding.or(m.encoding);
        m.account = b.account.or(m.account);
        m.account_type = b.account_type.or(m.account_type);
        m.operator = b.operator.or(m.operator);
        m.commodity = b.commodity.or(m.commodity);
        m.format = match (m.format, b.format) {
            (Some(old), Some(new)) if deep_format => Some(Fmt { date: new.date.or(old.date), delimiter: new.delimiter.or(old.delimiter), skip_head: new.skip_head.or(old.skip_head) }),
            (old, new) => new.or(old),
        };
        m.rules.extend_from_slice(b.rules);
    }
    m
}

fn permutations(n: usize) -> Vec<Vec<usize>> {
    fn go(n: usize, cur: &mut Vec<usize>, out: &mut Vec<Vec<usize>>) {
        if cur.len() == n {
            out.push(cur.clone());
            return;
        }
        for i in 0..n {
            if !cur.contains(&i) {
                cur.push(i);
                go(n, cur, out);
                cur.pop();
            }
        }
    }
    let mut out = Vec::new();
    go(n, &mut Vec::new(), &mut out);
    out
}

struct SelectRef {
    matching: Vec<Doc>,
    /// every acceptable merge result (empty iff nothing matches)
    accept: BTreeSet<Merged>,
    tie: bool,
    format_ambiguous: bool,
}

/// `empty_matches`: whether a document with an EMPTY `path` counts as occurring in every file path (degenerate; left open).
fn select_ref(docs: &[Doc], file: &str, empty_matches: bool) -> SelectRef {
    // "whose `path` occurs in the file's path": substring, equality included, case-sensitive (doc: substring comparison)
    let matching: Vec<Doc> = docs.iter().copied().filter(|d| file.contains(A_PATHS[d.path]) && (empty_matches || !A_PATHS[d.path].is_empty())).collect();
    let mut accept = BTreeSet::new();
    let mut whole = BTreeSet::new();
    if !matching.is_empty() {
        for p in permutations(matching.len()) {
            let order: Vec<Doc> = p.iter().map(|&i| matching[i]).collect();
            // "shortest path first"; equal lengths: either order
            if order.windows(2).any(|w| A_PATHS[w[0].path].len() > A_PATHS[w[1].path].len()) {
                continue;
            }
            let m = merge(&order, false);
            whole.insert(m.clone());
            accept.insert(m);
            accept.insert(merge(&order, true));
        }
    }
    let tie = whole.len() > 1;
    let format_ambiguous = accept.len() > whole.len();
    SelectRef { matching, accept, tie, format_ambiguous }
}

fn complete(m: &Merged) -> bool {
    m.encoding.is_some() && m.account.is_some() && m.account_type.is_some() && m.commodity.is_some()
}

/// First attribute in which the observed entry differs from the candidate, or None when they agree.
fn entry_diff(m: &Merged, e: &config::ConfigEntry) -> Option<String> {
    let enc = e.encoding.as_encoding().name();
    if Some(enc) != m.encoding {
        return Some(format!("encoding: got {} want {:?}", enc, m.encoding));
    }
    if Some(e.account.as_str()) != m.account {
        return Some(format!("account: got {} want {:?}", e.account, m.account));
    }
    let at = match e.account_type {
        config::AccountType::Asset => "asset",
        config::AccountType::Liability => "liability",
    };
    if Some(at) != m.account_type {
        return Some(format!("account_type: got {} want {:?}", at, m.account_type));
    }
    if e.operator.as_deref() != m.operator {
        return Some(format!("operator: got {:?} want {:?}", e.operator, m.operator));
    }
    let want_c = match m.commodity {
        Some(Commodity::Plain(c)) => config::AccountCommoditySpec { primary: c.to_string(), conversion: config::CommodityConversionSpec::default() },
        Some(Commodity::Spec { primary, disabled }) => config::AccountCommoditySpec { primary: primary.to_string(), conversion: config::CommodityConversionSpec { disabled, ..Default::default() } },
        None => return Some("commodity: reference has none".into()),
    };
    if e.commodity != want_c {
        return Some(format!("commodity: got {:?} want {:?}", e.commodity, want_c));
    }
    let f = m.format.unwrap_or(Fmt { date: None, delimiter: None, skip_head: None });
    let want_f = config::FormatSpec { date: f.date.unwrap_or("").to_string(), delimiter: f.delimiter.unwrap_or("").to_string(), skip: config::SkipSpec { head: f.skip_head.unwrap_or(0) }, ..Default::default() };
    if e.format != want_f {
        return Some(format!("format: got date={:?} delimiter={:?} skip={} want date={:?} delimiter={:?} skip={}", e.format.date, e.format.delimiter, e.format.skip.head, want_f.date, want_f.delimiter, want_f.skip.head));
    }
    let want_r: Vec<config::RewriteRule> = m.rules.iter().map(|&i| rule_cfg(&A_RULES[i])).collect();
    if e.rewrite != want_r {
        let names = |v: &Vec<config::RewriteRule>| -> Vec<String> {
            v.iter().map(|r| A_RULES.iter().find(|d| rule_cfg(d) == *r).map(|d| d.name.to_string()).unwrap_or_else(|| "?".into())).collect()
        };
        return Some(format!("rewrite: got {:?} want {:?}", names(&e.rewrite), names(&want_r)));
    }
    None
}

fn attr_of(diff: &str) -> &str {
    diff.split(':').next().unwrap_or("?")
}

fn judge_select(fam: &str, docs: &[Doc], file: &str) -> Outcome {
    let yaml = docs_yaml(docs);
    let set = match config::load_from_yaml(yaml.as_bytes()) {
        Ok(s) => s,
        Err(e) => panic!("harness bug: generated configuration does not load: {}\n{}", e, yaml),
    };
    let r = select_ref(docs, file, true);
    let got = set.select(Path::new(file));
    if docs.iter().any(|d| A_PATHS[d.path].is_empty()) {
        let r2 = select_ref(docs, file, false);
        if r2.matching != r.matching {
            // executed (a panic is still a violation), not judged
            return Outcome::dont_care(format!("{}/empty-path-left-open", fam));
        }
    }
    // a document whose path IS the whole given path takes part like any other
    let eq = if r.matching.iter().any(|d| A_PATHS[d.path] == file) { "/path-equals-file" } else { "" };
    let n = r.matching.len();
    if n == 0 {
        return match got {
            Ok(None) => Outcome::pass(format!("{}/match0/none", fam)),
            Err(_) => Outcome::pass(format!("{}/match0/error", fam)),
            Ok(Some(e)) => Outcome::violation("select/no-document-matches-but-selected", format!("no document's path occurs in {} but an entry (path {:?}) was selected", file, e.path)),
        };
    }
    let any = r.accept.iter().next().expect("non-empty");
    let nclass = if n >= 4 { "4".to_string() } else { n.to_string() };
    if !complete(any) {
        // doc/import.ja.md: encoding, account, account_type, commodity are required attributes
        return match got {
            Err(_) => Outcome::pass(format!("{}/match{}/incomplete-rejected{}", fam, nclass, eq)),
            Ok(None) => Outcome::violation(format!("select/matching-documents-but-none{}", eq), format!("{} document(s) match {} but select returned None", n, file)),
            Ok(Some(_)) => Outcome::violation(format!("select/incomplete-accepted{}", eq), format!("merged configuration for {} lacks a required attribute but was accepted", file)),
        };
    }
    let e = match got {
        Ok(Some(e)) => e,
        Ok(None) => return Outcome::violation(format!("select/matching-documents-but-none{}", eq), format!("{} document(s) match {} but select returned None", n, file)),
        Err(err) => return Outcome::violation(format!("select/complete-rejected{}", eq), format!("merged configuration for {} is complete but select failed: {}", file, err)),
    };
    let mut first_diff: Option<String> = None;
    let mut hit = false;
    for m in &r.accept {
        match entry_diff(m, &e) {
            None => {
                hit = true;
                break;
            }
            Some(d) => {
                if first_diff.is_none() {
                    first_diff = Some(d);
                }
            }
        }
    }
    if !hit {
        let d = first_diff.unwrap_or_default();
        let shape = if r.tie || r.format_ambiguous { "not-among-admitted-results" } else { "differs" };
        return Outcome::violation(format!("select/merge-{}/{}{}", shape, attr_of(&d), eq), format!("file {}: matching documents {:?}; {}", file, r.matching.iter().map(|d| format!("{}@{}", A_BODIES[d.body].name, A_PATHS[d.path])).collect::<Vec<_>>(), d));
    }
    // shape of the case for the class histogram
    let overrides = {
        let mut k = 0;
        let cnt = |f: &dyn Fn(&Body) -> bool| r.matching.iter().filter(|d| f(&A_BODIES[d.body])).count();
        for c in [cnt(&|b| b.encoding.is_some()), cnt(&|b| b.account.is_some()), cnt(&|b| b.account_type.is_some()), cnt(&|b| b.operator.is_some()), cnt(&|b| b.commodity.is_some()), cnt(&|b| b.format.is_some())] {
            if c >= 2 {
                k += 1;
            }
        }
        k
    };
    let rule_docs = r.matching.iter().filter(|d| !A_BODIES[d.body].rules.is_empty()).count();
    let shape = format!("{}{}", if overrides > 0 { "override" } else { "disjoint" }, if rule_docs >= 2 { "+concat" } else { "" });
    if r.accept.len() == 1 {
        Outcome::pass(format!("{}/match{}/{}{}", fam, nclass, shape, eq))
    } else if r.tie {
        Outcome::dont_care(format!("{}/match{}/equal-length-tie", fam, nclass))
    } else {
        Outcome::dont_care(format!("{}/match{}/format-whole-vs-per-key", fam, nclass))
    }
}

// =============================================================================================
// Family B — rule folding
// =============================================================================================

#[derive(Clone, Copy, PartialEq, Eq, Debug)]
enum Veh {
    Csv,
    Viseca,
    Camt,
}

impl Veh {
    fn name(self) -> &'static str {
        match self {
            Veh::Csv => "csv",
            Veh::Viseca => "viseca",
            Veh::Camt => "camt053",
        }
    }
    fn format(self) -> import::Format {
        match self {
            Veh::Csv => import::Format::Csv,
            Veh::Viseca => import::Format::Viseca,
            Veh::Camt => import::Format::IsoCamt053,
        }
    }
    fn file(self) -> &'static str {
        match self {
            Veh::Csv => "/data/stmt/in.csv",
            Veh::Viseca => "/data/stmt/in.txt",
            Veh::Camt => "/data/stmt/in.xml",
        }
    }
}

const SRC_ACCOUNT: &str = "Assets:Bank";
const ACCT_SVCR_REF: &str = "REF-1";

/// Rule alphabet for the importers whose records have a payee and a category (CSV, Viseca).
const PC_RULES: [RuleDef; 13] = [
    // captures payee and code from the head; no account
    RuleDef { name: "cap-head", or_list: false, elems: &[&[(F::Payee, r"^CARD (?P<code>\d+) (?P<payee>.*)$")]], pending: false, payee: None, account: None },
    // captures payee and code from the tail; no account
    RuleDef { name: "cap-tail", or_list: false, elems: &[&[(F::Payee, r"^(?P<payee>.*) (?P<code>\d+)$")]], pending: false, payee: None, account: None },
    // literal differing only in case from the record ("Migros"), unanchored
    RuleDef { name: "lit-case", or_list: false, elems: &[&[(F::Payee, "migros")]], pending: false, payee: None, account: Some("Expenses:Grocery") },
    // anchored: matches only the payee as rewritten by cap-head / set-payee; pending
    RuleDef { name: "anchored-pending", or_list: false, elems: &[&[(F::Payee, "^Migros")]], pending: true, payee: None, account: Some("Expenses:Migros") },
    // category matcher
    RuleDef { name: "category", or_list: false, elems: &[&[(F::Category, "food")]], pending: false, payee: None, account: Some("Expenses:Food") },
    // two-field AND element
    RuleDef { name: "and", or_list: false, elems: &[&[(F::Payee, "coop"), (F::Category, "transfer")]], pending: false, payee: None, account: Some("Assets:Wire") },
    // OR-list of two elements; pending
    RuleDef { name: "or-pending", or_list: true, elems: &[&[(F::Payee, "coop")], &[(F::Payee, "zurich")]], pending: true, payee: None, account: Some("Expenses:Shop") },
    // explicit payee replacement; no account
    RuleDef { name: "set-payee", or_list: false, elems: &[&[(F::Payee, "zurich")]], pending: false, payee: Some("Migros Genossenschaft"), account: None },
    // catch-all, pending
    RuleDef { name: "any-pending", or_list: false, elems: &[&[(F::Payee, ".")]], pending: true, payee: None, account: Some("Expenses:Misc") },
    // pending flag on a rule that assigns no account
    RuleDef { name: "noacct-pending", or_list: false, elems: &[&[(F::Category, "transfer")]], pending: true, payee: None, account: None },
    // OR-list whose first element captures (both elements can match one record => captures left open by the statement)
    RuleDef { name: "or-capture", or_list: true, elems: &[&[(F::Payee, r"^coop (?P<payee>.+)$")], &[(F::Category, "food")]], pending: false, payee: None, account: Some("Expenses:Coop") },
    // capture together with an account
    RuleDef { name: "cap-account", or_list: false, elems: &[&[(F::Payee, r"^salary (?P<payee>.+)$")]], pending: false, payee: None, account: Some("Income:Salary") },
    // anchors: `^…$` on the category (must not match `Misc\nFood`, ` Food`, ``), `…$` with escaped metacharacters on the payee
    RuleDef { name: "anchored-exact", or_list: true, elems: &[&[(F::Category, "^food$")], &[(F::Payee, r"\(shop\)$")]], pending: false, payee: None, account: Some("Expenses:Exact") },
];

const PC_PAYEES: [&str; 3] = ["CARD 1234 Migros Zurich 88", "coop city", "Salary ACME"];
const PC_CATEGORIES: [&str; 2] = ["Food", "Transfer"];
const PAYEE_META: &str = "A+B (Shop)";
const CAT_MULTILINE: &str = "Misc\nFood";
const CAT_BLANK: &str = " Food";

/// Rule alphabet for ISO Camt053.
const CAMT_RULES: [RuleDef; 15] = [
    RuleDef { name: "txinfo-cap", or_list: false, elems: &[&[(F::AddtlTxInfo, r"^Maestro (?P<code>\d+) (?P<payee>.*)$")]], pending: false, payee: None, account: None },
    RuleDef { name: "creditor-cap", or_list: false, elems: &[&[(F::CreditorName, r"^(?P<payee>.+)$"), (F::DomainFamily, "ICDT")]], pending: false, payee: None, account: None },
    RuleDef { name: "debtor-cap", or_list: false, elems: &[&[(F::DebtorName, r"^(?P<payee>.+)$"), (F::DomainFamily, "RCDT")]], pending: false, payee: None, account: None },
    RuleDef { name: "domain-salary", or_list: false, elems: &[&[(F::DomainCode, "PMNT"), (F::DomainFamily, "RCDT"), (F::DomainSubFamily, "SALA")]], pending: false, payee: Some("ACME Corp"), account: Some("Income:Salary") },
    RuleDef { name: "payee-lit-case", or_list: false, elems: &[&[(F::Payee, "migros")]], pending: false, payee: None, account: Some("Expenses:Grocery") },
    RuleDef { name: "or-pending", or_list: true, elems: &[&[(F::Payee, "^acme")], &[(F::CreditorName, "migros")]], pending: true, payee: None, account: Some("Expenses:Shop") },
    RuleDef { name: "entryinfo-pending", or_list: false, elems: &[&[(F::AddtlEntryInfo, "fee")]], pending: true, payee: Some("Okane Bank"), account: Some("Expenses:Fee") },
    RuleDef { name: "any-payee-pending", or_list: false, elems: &[&[(F::Payee, ".")]], pending: true, payee: None, account: Some("Expenses:Misc") },
    RuleDef { name: "anchored", or_list: false, elems: &[&[(F::Payee, "^Migros Z")]], pending: false, payee: None, account: Some("Expenses:Migros") },
    // --- OR-lists whose AND elements capture in a field applied early and may fail in a later one (fields are applied in
    // the order of RewriteField: domain codes, creditor, debtor, remittance info, entry info, transaction info, payee)
    // element 1 captures the payee from the debtor, then fails on card payments; element 2 matches them without captures
    RuleDef { name: "or-failed-payee-cap", or_list: true, elems: &[&[(F::DebtorName, r"^(?P<payee>Taro .+)$"), (F::AddtlTxInfo, "payment order")], &[(F::AddtlTxInfo, "maestro")]], pending: false, payee: None, account: Some("Expenses:Card") },
    // element 1 captures code and payee from the creditor, fails unless it is a standing order; element 2 = AND without captures
    RuleDef { name: "or-failed-code-cap", or_list: true, elems: &[&[(F::CreditorName, r"^(?P<code>\w+) (?P<payee>.+)$"), (F::AddtlEntryInfo, "standing")], &[(F::CreditorName, "migros"), (F::DomainFamily, "ICDT")]], pending: true, payee: None, account: Some("Expenses:Shop2") },
    // element 1 captures the payee and always fails; element 2 is a `payee` matcher that must see the payee of the EARLIER RULES
    RuleDef { name: "or-failed-then-payee", or_list: true, elems: &[&[(F::DebtorName, r"^(?P<payee>.+)$"), (F::AddtlTxInfo, "no such text")], &[(F::Payee, "migros")]], pending: false, payee: None, account: Some("Expenses:Grocery2") },
    // three elements: two capturing ones that fail or succeed depending on the record, then a plain one
    RuleDef { name: "or-three", or_list: true, elems: &[&[(F::CreditorName, r"^(?P<payee>.+)$"), (F::AddtlTxInfo, "refund")], &[(F::DebtorName, r"^(?P<payee>.+)$"), (F::RmtInfo, "invoice")], &[(F::AddtlEntryInfo, "card payment|standing")]], pending: false, payee: None, account: None },
    // one element, two capturing fields of different names
    RuleDef { name: "and-two-captures", or_list: false, elems: &[&[(F::CreditorName, r"^(?P<payee>.+)$"), (F::AddtlTxInfo, r"^Maestro (?P<code>\d+) ")]], pending: false, payee: None, account: None },
    // a `payee` field next to a payee-capturing sibling: whether it sees the sibling's capture is left open by the statement
    RuleDef { name: "and-cap-then-payee", or_list: false, elems: &[&[(F::CreditorName, r"^(?P<payee>.+)$"), (F::Payee, "migros")]], pending: false, payee: None, account: Some("Expenses:Grocery4") },
];

/// Viseca only (its `category` matcher captures, the CSV one does not): `category` is applied before `payee`.
const VISECA_EXTRA: [RuleDef; 3] = [
    // element 1 captures the payee from the category and fails on the payee; element 2 must see the payee of the earlier rules
    RuleDef { name: "or-failed-category-cap", or_list: true, elems: &[&[(F::Category, r"^(?P<payee>Food)$"), (F::Payee, "no-such-payee")], &[(F::Payee, "migros")]], pending: false, payee: None, account: Some("Expenses:Grocery3") },
    // element 1 captures a code from the category and fails; element 2 matches without captures
    RuleDef { name: "or-failed-category-code", or_list: true, elems: &[&[(F::Category, r"^(?P<code>\w+)$"), (F::Payee, "no-such-payee")], &[(F::Category, "food|transfer")]], pending: false, payee: None, account: None },
    // a category capture that applies
    RuleDef { name: "category-cap", or_list: false, elems: &[&[(F::Category, r"^(?P<payee>Trans)fer$")]], pending: false, payee: None, account: None },
];

#[derive(Clone, Debug)]
struct Rec {
    /// payee before any rule (None for camt053)
    payee: Option<&'static str>,
    fields: Vec<(F, &'static str)>,
    credit: bool,
    /// camt053: record carries an AcctSvcrRef (printed as the code unless a rule captures one; that default is not judged)
    acct_ref: bool,
    /// camt053: entry without transaction details
    no_details: bool,
    /// camt053: BkTxCd carries only a proprietary code, no <Domn> block (what Wise exports)
    no_domain: bool,
    /// camt053: transaction details without <RltdPties>
    no_parties: bool,
}

impl Rec {
    fn field(&self, f: F) -> Option<&'static str> {
        self.fields.iter().find(|(g, _)| *g == f).map(|(_, v)| *v)
    }
}

/// The 12 base records (3 payees x 2 categories x debit/credit) followed by the value classes a short alphabet lacks:
/// a payee with regex metacharacters; for CSV a category cell containing a line break, one with a leading blank, an
/// empty one; for Viseca an entry without category line.
fn pc_records(veh: Veh) -> Vec<Rec> {
    let mk = |p: &'static str, c: &'static str, credit: bool| Rec { payee: Some(p), fields: vec![(F::Category, c)], credit, acct_ref: false, no_details: false, no_domain: false, no_parties: false };
    let mut v = Vec::new();
    for credit in [false, true] {
        for c in PC_CATEGORIES {
            for p in PC_PAYEES {
                v.push(mk(p, c, credit));
            }
        }
    }
    for c in PC_CATEGORIES {
        v.push(mk(PAYEE_META, c, false));
    }
    let odd: &[&'static str] = match veh {
        Veh::Csv => &[CAT_MULTILINE, CAT_BLANK, ""],
        _ => &[""],
    };
    for c in odd {
        for p in [PC_PAYEES[0], PC_PAYEES[1]] {
            v.push(mk(p, c, false));
        }
    }
    v
}

fn camt_records() -> Vec<Rec> {
    let dom = |fam: &'static str, sub: &'static str| vec![(F::DomainCode, "PMNT"), (F::DomainFamily, fam), (F::DomainSubFamily, sub)];
    let mut v = Vec::new();
    // card payment to a shop
    for acct_ref in [false, true] {
        let mut f = dom("ICDT", "OTHR");
        f.extend([(F::CreditorName, "Migros Zurich"), (F::DebtorName, "Taro Yamada"), (F::AddtlTxInfo, "Maestro 1234 Migros Zurich"), (F::AddtlEntryInfo, "Card payment")]);
        v.push(Rec { payee: None, fields: f, credit: false, acct_ref, no_details: false, no_domain: false, no_parties: false });
    }
    // salary
    for acct_ref in [false, true] {
        let mut f = dom("RCDT", "SALA");
        f.extend([(F::CreditorName, "Taro Yamada"), (F::DebtorName, "ACME Corp"), (F::AddtlTxInfo, "Salary October"), (F::AddtlEntryInfo, "Credit transfer"), (F::RmtInfo, "Invoice 2024-10 salary")]);
        v.push(Rec { payee: None, fields: f, credit: true, acct_ref, no_details: false, no_domain: false, no_parties: false });
    }
    // transfer to a private person, no additional transaction info
    {
        let mut f = dom("ICDT", "AUTT");
        f.extend([(F::CreditorName, "Hanako Migros"), (F::DebtorName, "Taro Yamada"), (F::AddtlEntryInfo, "Standing order"), (F::RmtInfo, "Rent")]);
        v.push(Rec { payee: None, fields: f, credit: false, acct_ref: false, no_details: false, no_domain: false, no_parties: false });
    }
    // bank fee: entry without transaction details
    {
        let mut f = dom("RDDT", "OTHR");
        f.extend([(F::AddtlEntryInfo, "Account fee")]);
        v.push(Rec { payee: None, fields: f, credit: false, acct_ref: false, no_details: true, no_domain: false, no_parties: true });
    }
    // refund from the shop (credit)
    {
        let mut f = dom("RCDT", "OTHR");
        f.extend([(F::CreditorName, "Taro Yamada"), (F::DebtorName, "migros zurich"), (F::AddtlTxInfo, "Refund"), (F::AddtlEntryInfo, "Credit transfer")]);
        v.push(Rec { payee: None, fields: f, credit: true, acct_ref: false, no_details: false, no_domain: false, no_parties: false });
    }
    // salary whose bank transaction code is proprietary-only: no domain code at all
    {
        let f = vec![(F::CreditorName, "Taro Yamada"), (F::DebtorName, "ACME Corp"), (F::AddtlTxInfo, "Salary October"), (F::AddtlEntryInfo, "Credit transfer")];
        v.push(Rec { payee: None, fields: f, credit: true, acct_ref: false, no_details: false, no_domain: true, no_parties: false });
    }
    // card payment whose additional transaction info spans two lines
    {
        let mut f = dom("ICDT", "OTHR");
        f.extend([(F::CreditorName, "Migros Zurich"), (F::DebtorName, "Taro Yamada"), (F::AddtlTxInfo, "Maestro 5678 Kiosk\nMigros Zurich"), (F::AddtlEntryInfo, "Card payment")]);
        v.push(Rec { payee: None, fields: f, credit: false, acct_ref: false, no_details: false, no_domain: false, no_parties: false });
    }
    // card payment without related parties
    {
        let mut f = dom("ICDT", "OTHR");
        f.extend([(F::AddtlTxInfo, "Maestro 1234 Migros Zurich"), (F::AddtlEntryInfo, "Card payment")]);
        v.push(Rec { payee: None, fields: f, credit: false, acct_ref: false, no_details: false, no_domain: false, no_parties: true });
    }
    v
}

fn base_config(veh: Veh, path: &str) -> String {
    match veh {
        Veh::Csv => format!("path: {}\nencoding: UTF-8\naccount: {}\naccount_type: asset\ncommodity: JPY\nformat:\n  date: \"%Y/%m/%d\"\n  fields:\n    date: 1\n    payee: 2\n    category: 3\n    amount: 4\n", path, SRC_ACCOUNT),
        Veh::Viseca => format!("path: {}\nencoding: UTF-8\naccount: {}\naccount_type: liability\ncommodity: CHF\n", path, SRC_ACCOUNT),
        Veh::Camt => format!("path: {}\nencoding: UTF-8\naccount: {}\naccount_type: asset\ncommodity: CHF\n", path, SRC_ACCOUNT),
    }
}

fn csv_cell(s: &str) -> String {
    if s.contains(['\n', '"', ',']) || s.starts_with(' ') || s.ends_with(' ') {
        format!("\"{}\"", s.replace('"', "\"\""))
    } else {
        s.to_string()
    }
}

fn xml_escape(s: &str) -> String {
    s.replace('&', "&amp;").replace('<', "&lt;").replace('>', "&gt;")
}

fn source_text(veh: Veh, rec: &Rec) -> String {
    match veh {
        Veh::Csv => format!("date,payee,category,amount\n2024/01/05,{},{},{}\n", csv_cell(rec.payee.unwrap()), csv_cell(rec.field(F::Category).unwrap()), if rec.credit { "100" } else { "-100" }),
        // amounts on a card statement are expenses unless followed by " -"
        Veh::Viseca => {
            // an empty category = an entry without category line
            let c = rec.field(F::Category).unwrap();
            format!("05.01.24 05.01.24 {} 100.00{}\n{}", rec.payee.unwrap(), if rec.credit { " -" } else { "" }, if c.is_empty() { String::new() } else { format!("{}\n", c) })
        }
        Veh::Camt => {
            let ind = if rec.credit { "CRDT" } else { "DBIT" };
            let mut s = String::from("<?xml version=\"1.0\" encoding=\"UTF-8\"?>\n<Document><BkToCstmrStmt><Stmt>\n");
            s.push_str("<Bal><Tp><CdOrPrtry><Cd>CLBD</Cd></CdOrPrtry></Tp><Amt Ccy=\"CHF\">1000</Amt><CdtDbtInd>CRDT</CdtDbtInd></Bal>\n");
            s.push_str(&format!("<Ntry><Amt Ccy=\"CHF\">100</Amt><CdtDbtInd>{}</CdtDbtInd><BookgDt><Dt>2024-01-05</Dt></BookgDt><ValDt><Dt>2024-01-05</Dt></ValDt>\n", ind));
            if rec.no_domain {
                s.push_str("<BkTxCd><Prtry><Cd>TRANSFER-453789</Cd></Prtry></BkTxCd>\n");
            } else {
                s.push_str(&format!("<BkTxCd><Domn><Cd>{}</Cd><Fmly><Cd>{}</Cd><SubFmlyCd>{}</SubFmlyCd></Fmly></Domn></BkTxCd>\n", rec.field(F::DomainCode).unwrap(), rec.field(F::DomainFamily).unwrap(), rec.field(F::DomainSubFamily).unwrap()));
            }
            if !rec.no_details {
                s.push_str("<NtryDtls><Btch><NbOfTxs>1</NbOfTxs></Btch><TxDtls><Refs>");
                if rec.acct_ref {
                    s.push_str(&format!("<AcctSvcrRef>{}</AcctSvcrRef>", ACCT_SVCR_REF));
                }
                s.push_str("<EndToEndId>NOTPROVIDED</EndToEndId></Refs>");
                s.push_str(&format!("<Amt Ccy=\"CHF\">100</Amt><CdtDbtInd>{}</CdtDbtInd>\n", ind));
                if !rec.no_parties {
                    s.push_str("<RltdPties>");
                    if let Some(d) = rec.field(F::DebtorName) {
                        s.push_str(&format!("<Dbtr><Nm>{}</Nm></Dbtr>", xml_escape(d)));
                    }
                    if let Some(c) = rec.field(F::CreditorName) {
                        s.push_str(&format!("<Cdtr><Nm>{}</Nm></Cdtr>", xml_escape(c)));
                    }
                    // both forms of an account id and of a party are used
                    if let Some(a) = rec.field(F::CreditorAccountId) {
                        s.push_str(&format!("<CdtrAcct><Id><IBAN>{}</IBAN></Id></CdtrAcct>", xml_escape(a)));
                    }
                    if let Some(a) = rec.field(F::DebtorAccountId) {
                        s.push_str(&format!("<DbtrAcct><Id><Othr><Id>{}</Id></Othr></Id></DbtrAcct>", xml_escape(a)));
                    }
                    if let Some(n) = rec.field(F::UltimateDebtorName) {
                        s.push_str(&format!("<UltmtDbtr><Nm>{}</Nm></UltmtDbtr>", xml_escape(n)));
                    }
                    if let Some(n) = rec.field(F::UltimateCreditorName) {
                        s.push_str(&format!("<UltmtCdtr><Pty><Nm>{}</Nm></Pty></UltmtCdtr>", xml_escape(n)));
                    }
                    s.push_str("</RltdPties>");
                }
                if let Some(i) = rec.field(F::RmtInfo) {
                    s.push_str(&format!("<RmtInf><Ustrd>{}</Ustrd></RmtInf>", xml_escape(i)));
                }
                if let Some(i) = rec.field(F::AddtlTxInfo) {
                    s.push_str(&format!("<AddtlTxInf>{}</AddtlTxInf>", xml_escape(i)));
                }
                s.push_str("</TxDtls></NtryDtls>\n");
            }
            s.push_str(&format!("<AddtlNtryInf>{}</AddtlNtryInf></Ntry>\n</Stmt></BkToCstmrStmt></Document>\n", xml_escape(rec.field(F::AddtlEntryInfo).unwrap())));
            s
        }
    }
}

// ---------------------------------------------------------------------------------------------
// reference fold
// ---------------------------------------------------------------------------------------------

thread_local! {
    static RE_CACHE: RefCell<HashMap<(String, bool, bool), regex::Regex>> = RefCell::new(HashMap::new());
}

fn re(pat: &str, sem: Sem) -> regex::Regex {
    RE_CACHE.with(|c| {
        c.borrow_mut()
            .entry((pat.to_string(), sem.case_insensitive, sem.multi_line))
            .or_insert_with(|| regex::RegexBuilder::new(pat).case_insensitive(sem.case_insensitive).multi_line(sem.multi_line).build().unwrap_or_else(|e| panic!("harness bug: bad pattern {}: {}", pat, e)))
            .clone()
    })
}

#[derive(Clone, PartialEq, Eq, PartialOrd, Ord, Debug, Default)]
struct St {
    payee: Option<String>,
    code: Option<String>,
    account: Option<String>,
    /// some matching account-assigning rule is not flagged pending
    cleared: bool,
}

#[derive(Clone, Copy)]
struct Sem {
    case_insensitive: bool,
    /// payee matchers see the payee as rewritten by earlier rules (false: always the original) — only used to
    /// measure how many cases depend on threading
    threaded: bool,
    /// `^` / `$` anchor at every line of the value (false = the documented dialect) — only used to measure / classify
    multi_line: bool,
    /// field values are matched without leading / trailing blanks (the statement does not say; both readings admitted)
    trim: bool,
}

const SEM: Sem = Sem { case_insensitive: true, threaded: true, multi_line: false, trim: false };

type Caps = (Option<String>, Option<String>);

struct ElemRes {
    /// every admitted outcome of the element: `None` = does not match, `Some((payee capture, code capture))`
    outcomes: BTreeSet<Option<Caps>>,
    /// what fields of the element captured although the element fails under every reading (must never show)
    dead_captures: Vec<String>,
}

fn named(caps: &regex::Captures<'_>, name: &str) -> Option<String> {
    caps.name(name).map(|m| {
        assert!(!m.as_str().is_empty(), "harness bug: empty {} capture", name);
        m.as_str().to_string()
    })
}

/// Does the element match, and with which (payee, code) captures? An element matches only if ALL its fields do.
/// Left open by the statement, hence every reading is admitted: which of two fields capturing the same name wins;
/// whether the `payee` field sees the payee as rewritten by the earlier RULES or also a sibling field's capture.
fn elem_outcomes(e: Elem, rec: &Rec, cur_payee: Option<&str>, sem: Sem) -> ElemRes {
    let mut pcaps: Vec<String> = Vec::new();
    let mut ccaps: Vec<String> = Vec::new();
    let mut failed = false;
    // fields other than `payee` depend on the record only
    for (f, pat) in e.iter().filter(|(f, _)| *f != F::Payee) {
        if f.is_const() {
            if rec.field(*f) != Some(*pat) {
                failed = true;
            }
            continue;
        }
        match rec.field(*f).map(|t| if sem.trim { t.trim() } else { t }).and_then(|t| re(pat, sem).captures(t)) {
            None => failed = true,
            Some(caps) => {
                pcaps.extend(named(&caps, "payee"));
                ccaps.extend(named(&caps, "code"));
            }
        }
    }
    let dead = |p: &Vec<String>, c: &Vec<String>| p.iter().chain(c.iter()).cloned().collect::<Vec<_>>();
    if failed {
        return ElemRes { outcomes: [None].into_iter().collect(), dead_captures: dead(&pcaps, &ccaps) };
    }
    let winners = |v: &Vec<String>| -> Vec<Option<String>> {
        if v.is_empty() {
            vec![None]
        } else {
            v.iter().cloned().map(Some).collect()
        }
    };
    let mut outcomes: BTreeSet<Option<Caps>> = BTreeSet::new();
    match e.iter().find(|(f, _)| *f == F::Payee) {
        None => {
            for p in winners(&pcaps) {
                for c in winners(&ccaps) {
                    outcomes.insert(Some((p.clone(), c)));
                }
            }
        }
        Some((_, pat)) => {
            let mut targets: BTreeSet<Option<String>> = BTreeSet::new();
            targets.insert(cur_payee.map(str::to_string));
            targets.extend(pcaps.iter().cloned().map(Some));
            for t in targets {
                let own: Option<Caps> = t.as_deref().and_then(|t| re(pat, sem).captures(t).map(|caps| (named(&caps, "payee"), named(&caps, "code"))));
                match own {
                    None => {
                        outcomes.insert(None);
                    }
                    Some((op, oc)) => {
                        let mut p2 = pcaps.clone();
                        p2.extend(op);
                        let mut c2 = ccaps.clone();
                        c2.extend(oc);
                        for p in winners(&p2) {
                            for c in winners(&c2) {
                                outcomes.insert(Some((p.clone(), c)));
                            }
                        }
                    }
                }
            }
        }
    }
    let dead_captures = if outcomes.iter().all(|o| o.is_none()) { dead(&pcaps, &ccaps) } else { Vec::new() };
    ElemRes { outcomes, dead_captures }
}

#[derive(Default, Clone)]
struct FoldInfo {
    matched_rules: usize,
    account_rules: usize,
    /// several results admitted for some rule (OR elements / fields of one element)
    ambiguous: bool,
    /// some MATCHING rule has an element that captured and then failed
    failed_capturing_element: bool,
    /// what such elements captured
    dead_captures: Vec<String>,
    /// some rule tests a field the record does not have (no <Domn>, no related parties, no additional info, ...)
    absent_field_tested: bool,
}

/// The documented fold; returns every admissible final state.
fn fold_ref(rules: &[&RuleDef], rec: &Rec, sem: Sem) -> (BTreeSet<St>, FoldInfo) {
    let mut states: BTreeSet<St> = BTreeSet::new();
    states.insert(St::default());
    let mut info = FoldInfo::default();
    for r in rules {
        let mut next = BTreeSet::new();
        let mut any_match = false;
        for st in &states {
            let cur: Option<&str> = if sem.threaded { st.payee.as_deref().or(rec.payee) } else { rec.payee };
            let ers: Vec<ElemRes> = r.elems.iter().map(|e| elem_outcomes(e, rec, cur, sem)).collect();
            if r.elems.iter().any(|e| e.iter().any(|(f, _)| *f != F::Payee && rec.field(*f).map_or(true, |v| v.is_empty()))) {
                info.absent_field_tested = true;
            }
            // an OR-list matches if any element does; a failed element contributes nothing; which MATCHING element
            // supplies the captures is left open (or: the first one, see OR_FIRST_ELEMENT_WINS)
            let mut results: BTreeSet<Option<Caps>> = BTreeSet::new();
            if ers.iter().all(|x| x.outcomes.contains(&None)) {
                results.insert(None);
            }
            for (i, er) in ers.iter().enumerate() {
                if OR_FIRST_ELEMENT_WINS && !ers[..i].iter().all(|x| x.outcomes.contains(&None)) {
                    break;
                }
                for o in er.outcomes.iter().flatten() {
                    results.insert(Some(o.clone()));
                }
            }
            assert!(!results.is_empty(), "harness bug: rule {} admits no result", r.name);
            if results.len() > 1 {
                info.ambiguous = true;
            }
            if results.iter().any(|x| x.is_some()) {
                any_match = true;
                for er in &ers {
                    if !er.dead_captures.is_empty() {
                        info.failed_capturing_element = true;
                        info.dead_captures.extend(er.dead_captures.iter().cloned());
                    }
                }
            }
            for res in results {
                let mut n = st.clone();
                if let Some((cp, cc)) = res {
                    // captures set payee and code; an explicit `payee:` sets the payee (never both, see check_alphabet)
                    if let Some(p) = r.payee.map(str::to_string).or(cp) {
                        n.payee = Some(p);
                    }
                    if let Some(c) = cc {
                        n.code = Some(c);
                    }
                    if let Some(a) = r.account {
                        n.account = Some(a.to_string());
                        if !r.pending {
                            n.cleared = true;
                        }
                    }
                }
                next.insert(n);
            }
        }
        if any_match {
            info.matched_rules += 1;
            if r.account.is_some() {
                info.account_rules += 1;
            }
        }
        states = next;
    }
    (states, info)
}

// ---------------------------------------------------------------------------------------------
// observation: the printed transaction
// ---------------------------------------------------------------------------------------------

#[derive(Debug, Clone, PartialEq, Eq)]
struct Printed {
    payee: String,
    code: Option<String>,
    /// (account, marked pending) of every posting except commissions, in printed order
    posts: Vec<(String, bool)>,
}

/// Parse one printed transaction: `DATE[=DATE] * [(CODE) ]PAYEE` and posting lines `    [! ]ACCOUNT  AMOUNT`.
fn parse_printed(text: &str) -> Result<Printed, String> {
    let mut lines = text.lines().filter(|l| !l.trim().is_empty());
    let head = lines.next().ok_or("no header line")?;
    let (_, rest) = head.split_once(" * ").ok_or_else(|| format!("header without ' * ': {:?}", head))?;
    let (code, payee) = if let Some(r) = rest.strip_prefix('(') {
        let (c, p) = r.split_once(") ").ok_or_else(|| format!("unterminated code: {:?}", head))?;
        (Some(c.to_string()), p.to_string())
    } else {
        (None, rest.to_string())
    };
    let mut posts = Vec::new();
    for l in lines {
        let t = l.trim_start();
        if t.starts_with(';') {
            continue;
        }
        if !l.starts_with(' ') {
            return Err(format!("unexpected line {:?} (more than one transaction?)", l));
        }
        let (pending, t) = match t.strip_prefix("! ") {
            Some(r) => (true, r),
            None => (false, t),
        };
        let account = t.split("  ").next().unwrap_or(t).trim().to_string();
        if account != "Expenses:Commissions" {
            posts.push((account, pending));
        }
    }
    Ok(Printed { payee, code, posts })
}

/// The body of `ImportCmd::run` on in-memory inputs: load, select, import, convert, print.
fn run_import(yaml: &str, file: &str, fmt: import::Format, source: &str) -> Result<Vec<String>, String> {
    let set = config::load_from_yaml(yaml.as_bytes()).map_err(|e| format!("load_from_yaml: {}", e))?;
    let entry = set.select(Path::new(file)).map_err(|e| format!("select: {}", e))?.ok_or("select: no entry")?;
    let txns = import::import(source.as_bytes(), fmt, &entry).map_err(|e| format!("import: {}", e))?;
    let ctx = DisplayContext::default();
    let mut out = Vec::new();
    for t in &txns {
        let de = t.to_double_entry(&entry.account).map_err(|e| format!("to_double_entry: {}", e))?;
        out.push(format!("{}", ctx.as_display(&de)));
    }
    Ok(out)
}

struct Judged {
    outcome: Outcome,
    thread_dependent: bool,
    case_dependent: bool,
    or_ambiguous: bool,
    override_seen: bool,
    failed_capturing_element: bool,
    /// camt053 record with an AcctSvcrRef: a code capture is admitted in every result (code judged) / in none or some (default not judged)
    ref_with_capture: bool,
    ref_without_capture: bool,
    anchor_dependent: bool,
    absent_field_tested: bool,
}

/// Compare a printed transaction with the reference fold of `rules` over `rec`.
fn judge_fold(tag: &str, veh: Veh, rules: &[&RuleDef], rec: &Rec, printed: &Printed, src_account: &str) -> Judged {
    let sem = SEM;
    let (mut accept, info) = fold_ref(rules, rec, sem);
    let (trimmed, _) = fold_ref(rules, rec, Sem { trim: true, ..sem });
    let (multi_line, _) = fold_ref(rules, rec, Sem { multi_line: true, ..sem });
    let anchor_dependent = multi_line != accept;
    let trim_dependent = trimmed != accept;
    let (unthreaded, _) = fold_ref(rules, rec, Sem { threaded: false, ..sem });
    let (case_sensitive, _) = fold_ref(rules, rec, Sem { case_insensitive: false, ..sem });
    let thread_dependent = unthreaded != accept;
    let case_dependent = case_sensitive != accept;
    // whether blanks around a field value take part in matching is left open: admit both readings
    accept.extend(trimmed);
    let mk = |outcome: Outcome| Judged { outcome, thread_dependent, case_dependent, or_ambiguous: info.ambiguous, override_seen: info.account_rules >= 2, failed_capturing_element: info.failed_capturing_element, ref_with_capture: rec.acct_ref && accept.iter().all(|s| s.code.is_some()), ref_without_capture: rec.acct_ref && accept.iter().any(|s| s.code.is_none()), anchor_dependent, absent_field_tested: info.absent_field_tested };

    // the posting to the configured account, and the counter-posting
    if printed.posts.len() != 2 {
        return mk(Outcome::violation(format!("{}/{}/posting-count", tag, veh.name()), format!("expected the account posting and one counter-posting, printed {:?}", printed.posts)));
    }
    let own = printed.posts.iter().position(|(a, _)| a == src_account);
    let (counter_account, counter_pending) = match own {
        Some(i) => printed.posts[1 - i].clone(),
        None => return mk(Outcome::violation(format!("{}/{}/own-account-differs", tag, veh.name()), format!("no posting to the configured account {}: printed {:?}", src_account, printed.posts))),
    };
    let unknown = if rec.credit { "Income:Unknown" } else { "Expenses:Unknown" };
    // (attribute, expected, observed) of the first difference against one admitted state
    let diff = |st: &St| -> Option<(&'static str, String, String)> {
        let want_payee = st.payee.as_deref().or(rec.payee);
        if let Some(p) = want_payee {
            if printed.payee != p {
                return Some(("payee", p.to_string(), printed.payee.clone()));
            }
        }
        // a captured code must be printed; without a capture the code is judged unless the record carries an AcctSvcrRef
        // (camt053 prints that reference by default, which is outside the statement)
        if (st.code.is_some() || !rec.acct_ref) && printed.code != st.code {
            return Some(("code", format!("{:?}", st.code), format!("{:?}", printed.code)));
        }
        let want_acct = st.account.as_deref().unwrap_or(unknown);
        if counter_account != want_acct {
            return Some(("account", want_acct.to_string(), counter_account.clone()));
        }
        if counter_pending == st.cleared {
            return Some(("pending", format!("pending={}", !st.cleared), format!("pending={}", counter_pending)));
        }
        None
    };
    // among the admitted states, report against the one that agrees on the longest prefix of (payee, code, account, pending)
    let rank = |a: &str| match a {
        "payee" => 0,
        "code" => 1,
        "account" => 2,
        _ => 3,
    };
    let mut first: Option<(&'static str, String, String, St)> = None;
    let mut hit = false;
    for st in &accept {
        match diff(st) {
            None => {
                hit = true;
                break;
            }
            Some((a, w, g)) => {
                if first.as_ref().map_or(true, |f| rank(f.0) < rank(a)) {
                    first = Some((a, w, g, st.clone()));
                }
            }
        }
    }
    if !hit {
        let (attr, want, got, st) = first.expect("accept set is never empty");
        let shape = match attr {
            "payee" => {
                if info.dead_captures.contains(&printed.payee) {
                    "captured-by-failed-element"
                } else if st.payee.is_none() {
                    "want-original"
                } else if thread_dependent {
                    "want-rewritten/threading"
                } else {
                    "want-rewritten"
                }
            }
            "code" => {
                if printed.code.as_ref().map_or(false, |c| info.dead_captures.contains(c)) {
                    "captured-by-failed-element"
                } else if rec.acct_ref && st.code.is_some() && printed.code.as_deref() == Some(ACCT_SVCR_REF) {
                    "capture-overridden-by-acct-svcr-ref"
                } else if st.code.is_some() && printed.code.is_none() {
                    "capture-dropped"
                } else if st.code.is_none() {
                    "unexpected"
                } else {
                    "wrong-capture"
                }
            }
            "account" if anchor_dependent && multi_line.iter().any(|m| m.account.as_deref().unwrap_or(unknown) == counter_account) => "anchor-matched-inside-multi-line-value",
            "account" if info.absent_field_tested && rec.no_domain && st.account.as_deref() != Some(counter_account.as_str()) && !counter_account.ends_with(":Unknown") => "matched-absent-domain-code",
            "account" => {
                if st.account.is_none() {
                    "want-unknown"
                } else if counter_account.ends_with(":Unknown") {
                    "rule-account-missing"
                } else if info.account_rules >= 2 {
                    "want-last-matching-rule"
                } else {
                    "want-rule-account"
                }
            }
            _ => {
                if st.cleared {
                    "want-not-pending"
                } else {
                    "want-pending"
                }
            }
        };
        let amb = if accept.len() > 1 { " (no admitted result matches)" } else { "" };
        return mk(Outcome::violation(format!("{}/{}/{}/{}", tag, veh.name(), attr, shape), format!("{}: expected {} but printed {}{}; rules [{}]", attr, want, got, amb, rules.iter().map(|r| r.name).collect::<Vec<_>>().join(", "))));
    }
    let st = accept.iter().next().unwrap();
    let class = format!(
        "{}/{}/m{}/{}/{}",
        tag,
        veh.name(),
        match info.matched_rules {
            0 => "0",
            1 => "1",
            _ => "2+",
        },
        match info.account_rules {
            0 => "unknown",
            1 => "one-account",
            _ => "account-overridden",
        },
        if st.cleared { "cleared" } else { "pending" }
    );
    if trim_dependent {
        return mk(Outcome::dont_care(format!("{}/{}/blank-trimming-left-open", tag, veh.name())));
    }
    if accept.len() > 1 {
        return mk(Outcome::dont_care(format!("{}/{}/capture-choice-left-open", tag, veh.name())));
    }
    if anchor_dependent && !FIELD_ANCHORS_IS_MUST {
        return mk(Outcome::dont_care(format!("{}/{}/anchor-dialect-dependent", tag, veh.name())));
    }
    if case_dependent && !CASE_FOLD_IS_MUST {
        return mk(Outcome::dont_care(format!("{}/{}/case-fold-dependent", tag, veh.name())));
    }
    mk(Outcome::pass(class))
}

/// The admitted results, for case descriptions.
fn admitted(rules: &[&RuleDef], rec: &Rec) -> String {
    let (accept, _) = fold_ref(rules, rec, SEM);
    let unknown = if rec.credit { "Income:Unknown" } else { "Expenses:Unknown" };
    accept
        .iter()
        .map(|st| format!("payee={:?} code={:?} counter-account={} pending={}", st.payee.as_deref().or(rec.payee), st.code, st.account.as_deref().unwrap_or(unknown), !st.cleared))
        .collect::<Vec<_>>()
        .join(" | ")
}

fn fold_case(ctx: &mut Ctx, veh: Veh, rules: &[&RuleDef], rec: &Rec) {
    let path = "stmt/";
    let mut flags = (false, false, false, false, false, false, false, false, false);
    let fl = &mut flags;
    ctx.case(
        || format!("[B {}] configuration:\n{}{}source {}:\n{}reference admits: {}", veh.name(), base_config(veh, path), rewrite_yaml(rules), veh.file(), source_text(veh, rec), admitted(rules, rec)),
        || {
            let yaml = format!("{}{}", base_config(veh, path), rewrite_yaml(rules));
            let src = source_text(veh, rec);
            let out = match run_import(&yaml, veh.file(), veh.format(), &src) {
                Ok(o) => o,
                Err(e) => return Outcome::violation(format!("fold/{}/import-failed", veh.name()), e),
            };
            if out.len() != 1 {
                return Outcome::violation(format!("fold/{}/transaction-count", veh.name()), format!("one record produced {} transactions", out.len()));
            }
            let printed = match parse_printed(&out[0]) {
                Ok(p) => p,
                Err(e) => return Outcome::violation(format!("fold/{}/unreadable-output", veh.name()), e),
            };
            let j = judge_fold("fold", veh, rules, rec, &printed, SRC_ACCOUNT);
            *fl = (j.thread_dependent, j.case_dependent, j.or_ambiguous, j.override_seen, j.failed_capturing_element, j.ref_with_capture, j.ref_without_capture, j.anchor_dependent, j.absent_field_tested);
            j.outcome
        },
    );
    if flags.0 {
        ctx.count("fold_cases_depending_on_payee_threading", 1);
    }
    if flags.1 {
        ctx.count("fold_cases_depending_on_case_folding", 1);
    }
    if flags.2 {
        ctx.count("fold_cases_with_several_admitted_capture_choices", 1);
    }
    if flags.3 {
        ctx.count("fold_cases_with_account_override", 1);
    }
    if flags.7 {
        ctx.count("fold_cases_depending_on_field_anchors_vs_line_anchors", 1);
    }
    if flags.8 {
        ctx.count("fold_cases_testing_a_field_the_record_lacks", 1);
    }
    if flags.5 {
        ctx.count("fold_cases_acct_svcr_ref_and_code_capture_code_judged", 1);
    }
    if flags.6 {
        ctx.count("fold_cases_acct_svcr_ref_without_code_capture_code_not_judged", 1);
    }
    if flags.4 {
        ctx.count("fold_cases_with_a_failed_capturing_element_in_a_matching_rule", 1);
    }
}

/// Every sequence of length minlen..=maxlen over 0..n, shortest first, lexicographic.
fn for_each_seq(n: usize, minlen: usize, maxlen: usize, f: &mut dyn FnMut(&[usize])) {
    for len in minlen..=maxlen {
        let total = n.pow(len as u32);
        let mut idx = vec![0usize; len];
        for k in 0..total {
            let mut r = k;
            for i in (0..len).rev() {
                idx[i] = r % n;
                r /= n;
            }
            f(&idx);
        }
    }
}

// =============================================================================================
// Family C — end to end through ImportCmd::run on real files
// =============================================================================================

fn e2e_case(ctx: &mut Ctx, dir: &Path, x: &'static RuleDef, y: &'static RuleDef, long_first: bool, rec: &Rec) {
    // scalars split over the two layers; the short document's account must be overridden by the long one's
    let short = format!("path: bank/\nencoding: UTF-8\naccount: Assets:Overridden\naccount_type: asset\ncommodity: JPY\nformat:\n  date: \"%Y/%m/%d\"\n  fields:\n    date: 1\n    payee: 2\n    category: 3\n    amount: 4\n{}", rewrite_yaml(&[x]));
    let long = format!("path: bank/acct\naccount: {}\n{}", SRC_ACCOUNT, rewrite_yaml(&[y]));
    let yaml = if long_first { format!("{}---\n{}", long, short) } else { format!("{}---\n{}", short, long) };
    let src = source_text(Veh::Csv, rec);
    ctx.case(
        || format!("[C ImportCmd] config.yml:\n{}bank/acct/in.csv:\n{}reference admits: {}", yaml, src, admitted(&[x, y], rec)),
        || {
            let cfg = dir.join("config.yml");
            let srcp = dir.join("bank").join("acct").join("in.csv");
            std::fs::create_dir_all(srcp.parent().unwrap()).expect("scratch");
            std::fs::write(&cfg, &yaml).expect("scratch");
            std::fs::write(&srcp, &src).expect("scratch");
            let mut buf: Vec<u8> = Vec::new();
            let cmd = okane::cmd::ImportCmd { config: cfg, source: srcp };
            if let Err(e) = cmd.run(&mut buf) {
                return Outcome::violation("e2e/import-failed", format!("{}", e));
            }
            let text = String::from_utf8_lossy(&buf).to_string();
            let printed = match parse_printed(&text) {
                Ok(p) => p,
                Err(e) => return Outcome::violation("e2e/unreadable-output", e),
            };
            // rules of the shorter path first, whatever the document order
            judge_fold("e2e", Veh::Csv, &[x, y], rec, &printed, SRC_ACCOUNT).outcome
        },
    );
}

/// A document whose `path` is exactly the source path given to `ImportCmd` takes part in the merge like any other.
fn e2e_equal_path_case(ctx: &mut Ctx, dir: &Path, x: &'static RuleDef, rec: &Rec) {
    let srcp = dir.join("bank").join("acct").join("in.csv");
    let base = format!("path: bank/\nencoding: UTF-8\naccount: Assets:Overridden\naccount_type: asset\ncommodity: JPY\nformat:\n  date: \"%Y/%m/%d\"\n  fields:\n    date: 1\n    payee: 2\n    category: 3\n    amount: 4\n");
    let exact = format!("path: \"{}\"\naccount: {}\n{}", srcp.display(), SRC_ACCOUNT, rewrite_yaml(&[x]));
    let yaml = format!("{}---\n{}", base, exact);
    let src = source_text(Veh::Csv, rec);
    ctx.case(
        || format!("[C2 ImportCmd, path = the whole source path] config.yml:\n{}{}:\n{}reference admits: {}", yaml, srcp.display(), src, admitted(&[x], rec)),
        || {
            let cfg = dir.join("config-equal.yml");
            std::fs::create_dir_all(srcp.parent().unwrap()).expect("scratch");
            std::fs::write(&cfg, &yaml).expect("scratch");
            std::fs::write(&srcp, &src).expect("scratch");
            let mut buf: Vec<u8> = Vec::new();
            let cmd = okane::cmd::ImportCmd { config: cfg, source: srcp.clone() };
            if let Err(e) = cmd.run(&mut buf) {
                return Outcome::violation("e2e-path-equals-file/import-failed", format!("{}", e));
            }
            let text = String::from_utf8_lossy(&buf).to_string();
            let printed = match parse_printed(&text) {
                Ok(p) => p,
                Err(e) => return Outcome::violation("e2e-path-equals-file/unreadable-output", e),
            };
            judge_fold("e2e-path-equals-file", Veh::Csv, &[x], rec, &printed, SRC_ACCOUNT).outcome
        },
    );
}

// =============================================================================================

fn run(ctx: &mut Ctx) {
    let csv_rules: Vec<&'static RuleDef> = PC_RULES.iter().collect();
    let viseca_rules: Vec<&'static RuleDef> = PC_RULES.iter().chain(VISECA_EXTRA.iter()).collect();
    let camt_rules: Vec<&'static RuleDef> = CAMT_RULES.iter().collect();
    check_alphabet(&A_RULES.iter().collect::<Vec<_>>(), true);
    check_alphabet(&csv_rules, true);
    check_alphabet(&viseca_rules, false);
    check_alphabet(&camt_rules, false);

    // ---------------- family A ----------------
    let all_docs: Vec<Doc> = (0..A_MAIN_PATHS).flat_map(|p| (0..A_BODIES.len()).map(move |b| Doc { path: p, body: b })).collect();
    let mut a_cases = 0u64;
    // an empty configuration file does not load at all (serde_yaml yields one null document), so lists start at 1
    for_each_seq(all_docs.len(), 1, 3, &mut |idx| {
        for file in A_FILES {
            a_cases += 1;
            if !ctx.next_is_mine() {
                ctx.skip_cases(1);
                continue;
            }
            let docs: Vec<Doc> = idx.iter().map(|&i| all_docs[i]).collect();
            ctx.case(|| format!("[A] select({})\n{}", file, docs_yaml(&docs)), || judge_select("A", &docs, file));
        }
    });
    if ctx.tier.pick(false, true) {
        let red: Vec<Doc> = A_PATHS_4.iter().flat_map(|&p| A_BODIES_4.iter().map(move |&b| Doc { path: p, body: b })).collect();
        let n = red.len();
        for k in 0..n.pow(4) {
            let idx = [k / (n * n * n), (k / (n * n)) % n, (k / n) % n, k % n];
            for file in A_FILES {
                a_cases += 1;
                if !ctx.next_is_mine() {
                    ctx.skip_cases(1);
                    continue;
                }
                let docs: Vec<Doc> = idx.iter().map(|&i| red[i]).collect();
                ctx.case(|| format!("[A] select({})\n{}", file, docs_yaml(&docs)), || judge_select("A", &docs, file));
            }
        }
    }
    ctx.fact("A_document_alphabet", all_docs.len() as u64);
    ctx.fact("A_cases", a_cases);

    // ---------------- family A2: relation between a document's path and the given file path ----------------
    let rel_docs: Vec<Doc> = (A_MAIN_PATHS..A_PATHS.len()).flat_map(|p| A2_BODIES.iter().map(move |&b| Doc { path: p, body: b })).collect();
    let a2_maxlen = ctx.tier.pick(2usize, 3usize);
    let mut a2_cases = 0u64;
    for_each_seq(rel_docs.len(), 1, a2_maxlen, &mut |idx| {
        for file in A2_FILES {
            a2_cases += 1;
            if !ctx.next_is_mine() {
                ctx.skip_cases(1);
                continue;
            }
            let docs: Vec<Doc> = idx.iter().map(|&i| rel_docs[i]).collect();
            ctx.case(|| format!("[A2] select({})\n{}", file, docs_yaml(&docs)), || judge_select("A2", &docs, file));
        }
    });
    ctx.fact("A2_document_alphabet", rel_docs.len() as u64);
    ctx.fact("A2_cases", a2_cases);

    // ---------------- family B ----------------
    let maxlen = ctx.tier.pick(3usize, 4usize);
    let pc_csv = pc_records(Veh::Csv);
    let pc_viseca = pc_records(Veh::Viseca);
    let camt = camt_records();
    let mut b_cases = 0u64;
    for (veh, alphabet, pc) in [(Veh::Csv, &csv_rules, &pc_csv), (Veh::Viseca, &viseca_rules, &pc_viseca)] {
        for_each_seq(alphabet.len(), 0, maxlen, &mut |idx| {
            let rules: Vec<&RuleDef> = idx.iter().map(|&i| alphabet[i]).collect();
            for rec in pc.iter() {
                b_cases += 1;
                if !ctx.next_is_mine() {
                    ctx.skip_cases(1);
                    continue;
                }
                fold_case(ctx, veh, &rules, rec);
            }
        });
    }
    for_each_seq(CAMT_RULES.len(), 0, maxlen, &mut |idx| {
        let rules: Vec<&RuleDef> = idx.iter().map(|&i| &CAMT_RULES[i]).collect();
        for rec in &camt {
            b_cases += 1;
            if !ctx.next_is_mine() {
                ctx.skip_cases(1);
                continue;
            }
            fold_case(ctx, Veh::Camt, &rules, rec);
        }
    });
    // ---------------- family B2: every camt053 matcher field against records whose fields all hold DIFFERENT values ----------------
    // One rule `{field: (?P<payee>TOKEN.*)}` + account per (regex field, token), one rule `{field: CODE}` per (domain field, code);
    // each token is the value of exactly one field of a record, and the two records hold the tokens in swapped
    // (creditor <-> debtor, ultimate <-> plain, account ids, info texts) positions: reading a sibling field flips the match.
    let b2_fields = [F::CreditorName, F::DebtorName, F::UltimateCreditorName, F::UltimateDebtorName, F::CreditorAccountId, F::DebtorAccountId, F::RmtInfo, F::AddtlTxInfo, F::AddtlEntryInfo];
    let b2_tokens = ["Alpha Shop", "Beta Person", "Gamma Holding", "Delta Family", "CH1111", "CH2222", "Epsilon invoice", "Zeta info", "Eta entry"];
    let b2_layouts: [[usize; 9]; 2] = [[0, 1, 2, 3, 4, 5, 6, 7, 8], [1, 0, 3, 2, 5, 4, 7, 8, 6]];
    let b2_domains: [[&'static str; 3]; 2] = [["PMNT", "ICDT", "OTHR"], ["PMNT", "RCDT", "SALA"]];
    let b2_recs: Vec<Rec> = (0..2)
        .map(|k| {
            let mut f: Vec<(F, &'static str)> = vec![(F::DomainCode, b2_domains[k][0]), (F::DomainFamily, b2_domains[k][1]), (F::DomainSubFamily, b2_domains[k][2])];
            for (i, fd) in b2_fields.iter().enumerate() {
                f.push((*fd, b2_tokens[b2_layouts[k][i]]));
            }
            Rec { payee: None, fields: f, credit: k == 1, acct_ref: false, no_details: false, no_domain: false, no_parties: false }
        })
        .collect();
    let mut b2_rules: Vec<&'static RuleDef> = Vec::new();
    for fd in b2_fields {
        for tok in b2_tokens {
            let pat: &'static str = Box::leak(format!("^(?P<payee>{}.*)$", tok.to_lowercase()).into_boxed_str());
            let elem: Elem = Box::leak(vec![(fd, pat)].into_boxed_slice());
            let elems: &'static [Elem] = Box::leak(vec![elem].into_boxed_slice());
            let name: &'static str = Box::leak(format!("{}~{}", fd.yaml(), tok).into_boxed_str());
            b2_rules.push(Box::leak(Box::new(RuleDef { name, or_list: false, elems, pending: false, payee: None, account: Some("Expenses:Hit") })));
        }
    }
    for (fd, codes) in [(F::DomainCode, vec!["PMNT"]), (F::DomainFamily, vec!["ICDT", "RCDT", "RDDT"]), (F::DomainSubFamily, vec!["OTHR", "SALA", "AUTT"])] {
        for code in codes {
            let elem: Elem = Box::leak(vec![(fd, code)].into_boxed_slice());
            let elems: &'static [Elem] = Box::leak(vec![elem].into_boxed_slice());
            let name: &'static str = Box::leak(format!("{}={}", fd.yaml(), code).into_boxed_str());
            b2_rules.push(Box::leak(Box::new(RuleDef { name, or_list: false, elems, pending: false, payee: None, account: Some("Expenses:Hit") })));
        }
    }
    check_alphabet(&b2_rules, false);
    let mut b2_cases = 0u64;
    for r in &b2_rules {
        for rec in &b2_recs {
            b2_cases += 1;
            if !ctx.next_is_mine() {
                ctx.skip_cases(1);
                continue;
            }
            fold_case(ctx, Veh::Camt, &[*r], rec);
        }
    }
    ctx.fact("B2_rules", b2_rules.len() as u64);
    ctx.fact("B2_cases", b2_cases);
    ctx.fact("B_max_rule_list_length", maxlen as u64);
    ctx.fact("B_cases", b_cases);

    // ---------------- family C ----------------
    let mut dir: Option<PathBuf> = None;
    // 6 base records plus the one whose category cell spans two lines
    let e2e_recs: Vec<Rec> = pc_csv.iter().take(12).filter(|r| (r.field(F::Category) == Some("Food")) != r.credit).chain(pc_csv.iter().filter(|r| r.field(F::Category) == Some(CAT_MULTILINE)).take(1)).cloned().collect();
    let mut c_cases = 0u64;
    for x in PC_RULES.iter() {
        for y in PC_RULES.iter() {
            for long_first in [false, true] {
                for rec in &e2e_recs {
                    c_cases += 1;
                    if !ctx.next_is_mine() {
                        ctx.skip_cases(1);
                        continue;
                    }
                    let d = dir.get_or_insert_with(|| {
                        let d = crate::oka::scratch_dir("c17");
                        let s = d.to_string_lossy().to_string();
                        assert!(!s.contains("bank/"), "harness bug: scratch path {} contains a configuration path", s);
                        d
                    });
                    let d = d.clone();
                    e2e_case(ctx, &d, x, y, long_first, rec);
                }
            }
        }
    }
    for x in PC_RULES.iter() {
        for rec in &e2e_recs {
            c_cases += 1;
            if !ctx.next_is_mine() {
                ctx.skip_cases(1);
                continue;
            }
            let d = dir.get_or_insert_with(|| crate::oka::scratch_dir("c17")).clone();
            e2e_equal_path_case(ctx, &d, x, rec);
        }
    }
    ctx.fact("C_cases", c_cases);
}
