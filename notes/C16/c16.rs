//! C16 — CSV import books each row with the right sign, amount and balance.
//!
//! Bounded-exhaustive differential check of `okane import` for CSV against a reference importer
//! (RefImport, below) written from the property statement and doc/import.ja.md + the doc comments
//! of cli/src/import/config.rs:
//!
//! * configuration space: 13 dimensions (field layout, delimiter, skipped head lines, date format,
//!   amount | credit+debit, optional columns commodity / balance / note / charge, account-level
//!   default conversion, account type, row order, rewrite-rule conversion); ALL configurations with
//!   at most d non-default dimensions (so the full default x rule conversion matrix is in d = 2);
//! * statement space: ALL sequences of at most n rows over a row alphabet that depends on the
//!   configuration (credit, debit, zero, empty / wrong running balance, other-currency rows,
//!   conversion rows with exact figures, rows with a charge) x ALL same-day / next-day patterns;
//! * plus families that vary one thing at a time over a small statement set: date-less lines, nested configuration
//!   fragments, rewrite-rule lists, charge value classes, preambles, cell spellings, and the free text of a cell (every
//!   printable ASCII byte at the start / inside / end of the reference or payee cell, in the first column or not);
//! * every (configuration, statement) is imported by the real code twice — as a tree through
//!   `okane::import::import(Format::Csv)` + `Txn::to_double_entry`, and as text through
//!   `ImportCmd::run` on real files — both are compared with RefImport, and for asset accounts with a
//!   running-balance column `opening transaction + printed text` is fed to `report::process`.

use std::path::PathBuf;

use chrono::NaiveDate;
use okane::import::{self, config as icfg, Format};
use okane_core::parse::{parse_ledger, ParseOptions};
use okane_core::syntax::{self, expr, plain};

use crate::fw::{CheckDef, Ctx, Outcome};
use crate::oka;
use crate::q::{qmap_add, qmap_clean, qmap_show, QMap, Q};

pub const DEF: CheckDef = CheckDef {
    id: "C16",
    run,
    technique: "deviation-bounded exhaustive enumeration of import configurations (all configurations with <= d non-default dimensions out of 13) x exhaustive enumeration of all statements of <= n rows over a configuration-dependent row alphabet x all same-day/next-day date patterns; each case is imported by the real code as a tree (import::import + Txn::to_double_entry) and as text (ImportCmd::run on real files), both compared posting by posting with a reference importer in exact rational arithmetic; for asset accounts with a running-balance column the printed text behind an opening transaction is run through report::process",
    rule: "case = (configuration, statement). Configuration dimensions (default first): layout {index,label,template '{N}'} x delimiter {',',tab,';'} x skip.head {0,2} x date format {%Y/%m/%d,%Y-%m-%d,%d.%m.%Y} x value columns {amount, credit+debit} x commodity column {absent,present} x running-balance column {present,absent} x note column {absent,present} x charge column {absent,present} x account-level default conversion {none (no secondary_commodity column), rate/secondary_amount/secondary_commodity columns with no commodity.conversion (built-in price_of_secondary/extract), price_of_secondary/compute, price_of_primary/extract, price_of_primary/compute, disabled: true, built-in modes + `commodity: GBP` (a commodity no statement cell shows)} x rewrite-rule conversion on payee ^xfer {no rule, price_of_secondary/compute, price_of_primary/extract, disabled: true, price_of_primary/extract + `commodity: GBP`; the rule names the commodity itself when there is no secondary_commodity column} x account type {asset, liability} x row_order {old_to_new,new_to_old} (row_order is dimension 11, the rule dimension 12); ALL configurations with <= 2 (thorough <= 3) non-default dimensions. Statement: ALL sequences of <= 3 rows (thorough: <= 4 rows for configurations with <= 1 non-default dimension) over the alphabet {credit, debit, zero} + per present column {debit with empty balance cell, debit with a wrong balance; credit/debit in the other currency; credit/debit rows carrying the secondary cells (decided by the account default); credit/debit rows carrying the secondary cells AND matched by the rule (decided by the rule, over the default if any); a matched debit without secondary cells when the rule disables conversion; a matched conversion debit whose secondary-commodity cell is empty when the rule names the commodity; an unmatched debit with cells when there is no default; credit/debit with a charge; other-currency conversion debit; conversion debit with a charge} x EVERY assignment of same-day/next-day to rows 2..n; rows are written newest first when row_order=new_to_old. PLUS date-less lines: for every configuration with <= 1 non-default dimension, and with 2 when one of them is row_order=new_to_old (thorough: every configuration with <= 2), ALL statements over {credit, debit} of the same length bound x all date patterns x ALL placements of one date-less line (all cells empty | only the payee cell filled) at any of the n+1 file positions, or two (empty then payee-only) at any positions g1 <= g2; such lines must produce no transaction and leave every dated row imported, oldest first, with the end-to-end clause unchanged. PLUS nested configuration fragments: for every configuration with <= 1 non-default dimension (thorough <= 2) the same configuration written as 2 documents (ALL 3^4 assignments of {outer, inner, both} to account_type, commodity, account, format; where both set it the outer carries a wrong value) and as 3 documents (all assignments of the 7 non-empty level sets in which <= 1 (thorough <= 2) attribute differs from innermost-only), always preceded by a non-matching document of wrong values, documents listed most specific first x every one-row statement of the alphabet. PLUS rewrite-rule lists: ALL lists of 2 rules over matcher {^xfer, ^nomatch} x conversion {unset, sec/compute, pri/extract, disabled} x account {unset, set} (256) and ALL lists of 3 rules over matcher x conversion (512), with no account default and with the built-in one (thorough: all 7 defaults) x 4 statements of matched / unmatched rows carrying the secondary cells; the conversion in force is that of the last matching rule that sets one. PLUS charge value classes: for every configuration of the main enumeration that has the charge column, ALL statements of <= 2 rows x date patterns over {credit, debit} x charge cell {empty, 2.50, -0.50 (refund), 0.00, -0.00} x {without, with conversion cells (where the columns exist)}; a zero cell is no charge, a negative charge nets the counter-posting like a positive one. PLUS statement preambles: skip.head = n in 0..3 x ALL sequences of n preamble lines over {text, blank, whitespace only, a line that looks like a data row} x layout {index, label} x row_order x 4 statements (every data row imported, nothing of the preamble). PLUS cell spellings: amount / credit / debit / balance / charge cells written as `-$5`, `$-5`, `USD -5`, `-5 USD` x {default, credit+debit, liability, charge column} x ALL statements of <= 2 rows over {credit, debit (, debit with charge, credit with negative charge)}. PLUS free text of a cell: EVERY printable ASCII byte 0x20..0x7e (and, inside quotes, tab and line feed) as first / inner / last byte of the unmapped reference-number cell or of the payee cell x that cell in the FIRST column of the record or not (Ref second, Ref first, payee first) x the line that carries it {header label, 1st / 2nd / 3rd data line of the file, every line} x layout {index, label} on the statement [credit, debit, debit]; bare and quoted, with ',' LF old_to_new, and the leading byte also with tab / ';' delimiters, new_to_old and CR LF line ends (thorough: the full product); no byte of a text cell makes a line less of a row: all three rows imported, oldest first, amounts, assertions and the end-to-end clause unchanged. states = cases, transitions = transactions compared with RefImport (tree + text), validated = cases in which every judged value had exactly one acceptable answer",
    assumptions: &[
        "okane's ledger parser is trusted to read the printed text back (C05/C15 decide that); report::process is trusted as the book-keeping referee of the end-to-end clause (C01/C02 decide that)",
        "DON'T-CARE: the counter-posting value of a row with a non-zero charge when no statement-supplied secondary amount exists (either 'opposite amount' or 'opposite amount net of the charge' is accepted); existence and rate of the charge posting; the sign of the balance assertion for a liability account; order of postings inside a transaction; payee/account of the counter-posting",
        "values: three commodities (USD primary, EUR other, CHF secondary), rate 1.25, amounts with <= 3 decimals, conversion figures exact; dates 2024-03-05 onwards",
    ],
    shards: 64,
    hang_s: 30,
    single_worker: false,
};

// ------------------------------------------------------------------------------------------
// Configuration space

/// One conversion specification (`CommodityConversionSpec`): rate direction, amount mode, disabled flag.
#[derive(Clone, Copy, PartialEq, Eq, Debug)]
struct Spec {
    /// true: the rate is the price of the primary (row) commodity; false: of the secondary one
    pri: bool,
    /// true: `amount: compute`; false: `amount: extract`
    compute: bool,
    disabled: bool,
    /// the specification names the secondary commodity itself (`commodity: GBP`, never what the statement's
    /// secondary-commodity cell says); DOC: "Overrides `secondary_commodity` with the given value"
    named: bool,
}

impl Spec {
    /// full name for signatures
    fn name(self) -> String {
        format!("{}{}", self.base_name(), if self.named { "+commodity" } else { "" })
    }
    /// coarse name for classes
    fn base_name(self) -> &'static str {
        match (self.disabled, self.pri, self.compute) {
            (true, _, _) => "disabled",
            (false, false, false) => "sec-extract",
            (false, false, true) => "sec-compute",
            (false, true, false) => "pri-extract",
            (false, true, true) => "pri-compute",
        }
    }
    fn yaml(self) -> Vec<String> {
        let mut v = vec![];
        if self.compute {
            v.push("amount: compute".into());
        }
        if self.pri {
            v.push("rate: price_of_primary".into());
        }
        if self.disabled {
            v.push("disabled: true".into());
        }
        if self.named {
            v.push(format!("commodity: {}", NAMED));
        }
        v
    }
}

const fn sp(pri: bool, compute: bool, disabled: bool) -> Spec {
    Spec { pri, compute, disabled, named: false }
}
const fn named(s: Spec) -> Spec {
    Spec { named: true, ..s }
}

/// dimension 9: account-level default conversion. None = no secondary_commodity column, so the default can never
/// apply; Some(sec-extract) = the three columns with NO `commodity.conversion` in the YAML (built-in default).
const DEFAULTS: [Option<Spec>; 7] = [None, Some(sp(false, false, false)), Some(sp(false, true, false)), Some(sp(true, false, false)), Some(sp(true, true, false)), Some(sp(false, false, true)), Some(named(sp(false, false, false)))];
/// dimension 12: `conversion` of the rewrite rule `payee: ^xfer` (None = no rule at all)
const RULES: [Option<Spec>; 5] = [None, Some(sp(false, true, false)), Some(sp(true, false, false)), Some(sp(false, false, true)), Some(named(sp(true, false, false)))];

/// number of alternatives per dimension (alternative 0 = default)
const DIMS: [u8; 13] = [3, 3, 2, 3, 2, 2, 2, 2, 2, 7, 2, 2, 5];
const DIM_NAMES: [&str; 13] = ["layout", "delimiter", "skip", "date", "credit-debit", "commodity-col", "no-balance-col", "note-col", "charge-col", "conversion", "liability", "new-to-old", "rule-conversion"];

#[derive(Clone, Copy, Debug)]
struct Cfg {
    choice: [u8; 13],
    /// the configuration is written as k nested fragments (None: one document)
    layer: Option<Layer>,
    /// a list of 2-3 rewrite rules instead of the single rule of dimension 12
    stack: Option<Stack>,
    /// explicit statement preamble: `skip.head` = n and exactly n preamble lines of the given kinds
    /// (0 text, 1 blank, 2 whitespace only, 3 a line that looks like a data row) before the header
    preamble: Option<(u8, [u8; 3])>,
    /// spelling of the amount-bearing cells: 0 `-7.25`, 1 `-$7.25`, 2 `$-7.25`, 3 `USD -7.25`, 4 `-7.25 USD`
    style: u8,
    /// free text with a chosen byte in one cell of the statement (cell-text family)
    text: Option<CellText>,
}

/// The free text of ONE cell per line (the unmapped reference-number cell, or the payee cell) carries a chosen byte.
/// STATEMENT: "for every CSV row the imported transaction moves the configured account by the row's amount" - what a
/// reference / cheque-number / payee cell says is data of the row; no byte in it makes the line less of a CSV row.
#[derive(Clone, Copy, Debug)]
struct CellText {
    /// the byte: every printable ASCII character 0x20..=0x7e; for the unmapped cell also tab and line feed (inside quotes)
    ch: u8,
    /// 0 `#1024` (first byte of the cell), 1 `10#24`, 2 `1024#`
    place: u8,
    /// the cell is written inside double quotes even when CSV does not require it
    quoted: bool,
    /// 0: the unmapped Ref cell in its usual place (second column, after the date); 1: the Ref column is physically the
    /// FIRST column, so the text starts the record; 2: the payee column is physically first and its text is `<text> <row id>`
    col: u8,
    /// which line carries the text: 0 the header (the column's label), 1..=3 the k-th data line of the FILE, 4 every line
    target: u8,
    /// lines end in CR LF
    crlf: bool,
}

impl CellText {
    fn text(&self) -> String {
        let c = self.ch as char;
        match self.place {
            0 => format!("{}1024", c),
            1 => format!("10{}24", c),
            _ => format!("1024{}", c),
        }
    }
    /// the cell as written into the file: quoted when CSV requires it (delimiter, quote, line break inside) or when `quoted`
    fn render(&self, cell: &str, d: char) -> String {
        if self.quoted || cell.contains(d) || cell.contains('"') || cell.contains('\n') || cell.contains('\r') {
            format!("\"{}\"", cell.replace('"', "\"\""))
        } else {
            cell.to_string()
        }
    }
    fn on_header(&self) -> bool {
        self.target == 0 || self.target == 4
    }
    fn on_data_line(&self, file_index: usize) -> bool {
        self.target == 4 || self.target as usize == file_index + 1
    }
    /// key of the column that carries the text
    fn key(&self) -> &'static str {
        if self.col == 2 {
            "payee"
        } else {
            "-"
        }
    }
    /// class of the byte for signatures
    fn class(&self) -> String {
        let c = match self.ch {
            b' ' => "space".to_string(),
            b'\t' => "tab".to_string(),
            b'\n' => "newline".to_string(),
            c if c.is_ascii_alphanumeric() => "alnum".to_string(),
            c => (c as char).to_string(),
        };
        format!("+text:{}-{}{}", ["lead", "inner", "trail"][self.place as usize], c, if self.quoted { "-quoted" } else { "" })
    }
}

/// label of a column in the header line (the cell-text family writes its text into the label of its column)
fn header_label(cfg: &Cfg, key: &str, label: &str) -> String {
    match &cfg.text {
        Some(t) if t.on_header() && t.key() == key => {
            if key == "payee" {
                format!("{} {}", t.text(), label)
            } else {
                t.text()
            }
        }
        _ => label.to_string(),
    }
}

/// content of a YAML double-quoted scalar
fn yaml_dq(s: &str) -> String {
    s.replace('\\', "\\\\").replace('"', "\\\"")
}

/// The same effective configuration written as k = 2 or 3 documents whose `path`s all occur in the source path
/// (`c16stmt` < `c16stmt.` < `c16stmt.csv`, merged shortest first; DOC import.ja.md: "rewrite is appended, everything else is
/// overwritten") plus a non-matching document full of wrong values. For each of the four attributes that decide signs,
/// commodities and the account posting, `masks[a]` says which levels set it (bit 0 = outermost): the most specific
/// level that sets it carries the TRUE value, every less specific one a DECOY (opposite account type, commodity JPY,
/// account Assets:Decoy, a format with another date format and column mapping).
#[derive(Clone, Copy, Debug)]
struct Layer {
    k: u8,
    /// 0 account_type, 1 commodity, 2 account (+ operator), 3 format
    masks: [u8; 4],
}
const LAYER_ATTRS: [&str; 4] = ["account_type", "commodity", "account", "format"];

#[derive(Clone, Copy, Debug)]
struct RuleDef {
    /// matcher `^xfer` (matches the xfer rows) or `^nomatch`
    matches: bool,
    conv: Option<Spec>,
    account: bool,
}
#[derive(Clone, Copy, Debug)]
struct Stack {
    n: u8,
    rules: [RuleDef; 3],
}

impl Cfg {
    fn layout(&self) -> u8 {
        self.choice[0]
    }
    fn delim(&self) -> char {
        [',', '\t', ';'][self.choice[1] as usize]
    }
    fn skip(&self) -> usize {
        if let Some((n, _)) = self.preamble {
            return n as usize;
        }
        [0, 2][self.choice[2] as usize]
    }
    /// spell a number of the statement (magnitude as printed, sign) in the configured style; the commodity shown in
    /// the cell is decoration (the commodity comes from the configuration / commodity column)
    fn spell(&self, neg: bool, mag: &str) -> String {
        let m = if neg { "-" } else { "" };
        match self.style {
            0 => format!("{}{}", m, mag),
            1 => format!("{}${}", m, mag),
            2 => format!("${}{}", m, mag),
            3 => format!("USD {}{}", m, mag),
            _ => format!("{}{} USD", m, mag),
        }
    }
    fn datefmt(&self) -> &'static str {
        ["%Y/%m/%d", "%Y-%m-%d", "%d.%m.%Y"][self.choice[3] as usize]
    }
    fn crdr(&self) -> bool {
        self.choice[4] == 1
    }
    fn ccy_col(&self) -> bool {
        self.choice[5] == 1
    }
    /// the running-balance column is part of the DEFAULT configuration (its absence is the deviation), so that the
    /// end-to-end clause is exercised together with every other pair of features
    fn bal_col(&self) -> bool {
        self.choice[6] == 0
    }
    fn note_col(&self) -> bool {
        self.choice[7] == 1
    }
    fn fee_col(&self) -> bool {
        self.choice[8] == 1
    }
    /// account-level default conversion (None: no secondary_commodity column)
    fn default_conv(&self) -> Option<Spec> {
        DEFAULTS[self.choice[9] as usize]
    }
    /// conversion carried by the rewrite rule `payee: ^xfer` (None: no rule)
    fn rule_conv(&self) -> Option<Spec> {
        if let Some(st) = &self.stack {
            // DOC import.ja.md: several matching rules are applied in list order, later ones override; a rule that does not
            // set a field leaves it as it is. So: the conversion of the LAST matching rule that carries one.
            return st.rules[..st.n as usize].iter().filter(|r| r.matches).filter_map(|r| r.conv).last();
        }
        RULES[self.choice[12] as usize]
    }
    /// rate and secondary_amount columns exist
    fn conv_cols(&self) -> bool {
        self.default_conv().is_some() || self.rule_conv().is_some() || self.stack.is_some()
    }
    /// the secondary_commodity column exists (otherwise an enabled rule names the commodity itself)
    fn sec_ccy_col(&self) -> bool {
        self.default_conv().is_some()
    }
    /// the specification in force for a row: the rule's if the row matches the rule (the default is "applied ... if not
    /// specified in rewrite rules"), else the account default if the row carries all three secondary cells
    fn effective(&self, matches_rule: bool, cells_filled: bool) -> Option<Spec> {
        match (self.rule_conv(), matches_rule) {
            (Some(r), true) => Some(r),
            _ if cells_filled => self.default_conv(),
            _ => None,
        }
    }
    /// coarse name of the conversion configuration (classes, whole-file signatures)
    fn conv_name(&self) -> String {
        if self.stack.is_some() {
            return "rule-stack".into();
        }
        match (self.default_conv(), self.rule_conv()) {
            (None, None) => "noconv".into(),
            (Some(d), None) => format!("default-{}", d.base_name()),
            (None, Some(r)) => format!("rule-{}", r.base_name()),
            (Some(d), Some(r)) => format!("rule-{}-over-default-{}", if r.disabled { "off" } else { "on" }, if d.disabled { "off" } else { "on" }),
        }
    }
    fn liability(&self) -> bool {
        self.choice[10] == 1
    }
    fn new_to_old(&self) -> bool {
        self.choice[11] == 1
    }
    fn account(&self) -> &'static str {
        if self.liability() {
            "Liabilities:Card"
        } else {
            "Assets:Bank"
        }
    }
    fn deviations(&self) -> usize {
        self.choice.iter().filter(|c| **c != 0).count()
    }
    fn describe(&self) -> String {
        let v: Vec<String> = self.choice.iter().enumerate().filter(|(_, c)| **c != 0).map(|(i, c)| if DIMS[i] == 2 { DIM_NAMES[i].to_string() } else if i == 9 { format!("default-conv={}", self.default_conv().unwrap().name()) } else if i == 12 { format!("rule-conv={}", self.rule_conv().unwrap().name()) } else { format!("{}={}", DIM_NAMES[i], c) }).collect();
        let mut v = v;
        if let Some((n, k)) = &self.preamble {
            v.push(format!("preamble[skip.head={} lines={:?}]", n, k[..*n as usize].iter().map(|x| ["text", "blank", "spaces", "csv-like"][*x as usize]).collect::<Vec<_>>()));
        }
        if self.style != 0 {
            v.push(format!("cell-style={}", ["-5", "-$5", "$-5", "USD -5", "-5 USD"][self.style as usize]));
        }
        if let Some(t) = &self.text {
            v.push(format!("cell-text[{:?} in the {} line(s) {}{}{}]", t.text(), ["Ref cell (2nd column)", "Ref cell (FIRST column)", "payee cell (FIRST column)"][t.col as usize], ["header", "data 1", "data 2", "data 3", "header + every data"][t.target as usize], if t.quoted { ", quoted" } else { "" }, if t.crlf { ", CRLF" } else { "" }));
        }
        if let Some(l) = &self.layer {
            let lv = |m: u8| -> String { (0..l.k).filter(|i| m >> i & 1 == 1).map(|i| i.to_string()).collect::<Vec<_>>().join("") };
            v.push(format!("{}-fragments[{}]", l.k, (0..4).map(|a| format!("{}@{}", LAYER_ATTRS[a], lv(l.masks[a]))).collect::<Vec<_>>().join(",")));
        }
        if let Some(st) = &self.stack {
            let r: Vec<String> = st.rules[..st.n as usize].iter().map(|r| format!("{}{}{}", if r.matches { "xfer" } else { "nomatch" }, r.conv.map(|c| format!(":{}", c.name())).unwrap_or_default(), if r.account { ":acct" } else { "" })).collect();
            v.push(format!("rules[{}]", r.join(" ; ")));
        }
        if v.is_empty() {
            "default".into()
        } else {
            v.join("+")
        }
    }
    /// which extra family the configuration belongs to (suffix of signatures)
    fn family(&self) -> String {
        match (self.layer.is_some(), self.stack.is_some()) {
            (true, _) => "+fragments".into(),
            (_, true) => "+rule-list".into(),
            _ if self.preamble.is_some() => "+preamble".into(),
            _ if self.style != 0 => ["", "+cell:-$5", "+cell:$-5", "+cell:USD -5", "+cell:-5 USD"][self.style as usize].into(),
            _ => match &self.text {
                Some(t) => t.class(),
                None => String::new(),
            },
        }
    }
    /// coarse shape used in violation signatures
    fn value_shape(&self) -> String {
        format!("{}-{}{}", if self.crdr() { "credit/debit" } else { "amount" }, if self.liability() { "liability" } else { "asset" }, self.family())
    }
}

/// All configurations with at most `d` non-default dimensions; fewer deviations first, then lexicographic.
fn configs(d: usize) -> Vec<Cfg> {
    fn rec(pos: usize, left: usize, cur: &mut [u8; 13], out: &mut Vec<Cfg>) {
        if pos == DIMS.len() {
            out.push(Cfg { choice: *cur, layer: None, stack: None, preamble: None, style: 0, text: None });
            return;
        }
        cur[pos] = 0;
        rec(pos + 1, left, cur, out);
        if left > 0 {
            for a in 1..DIMS[pos] {
                cur[pos] = a;
                rec(pos + 1, left - 1, cur, out);
            }
            cur[pos] = 0;
        }
    }
    let mut out = vec![];
    rec(0, d, &mut [0u8; 13], &mut out);
    out.sort_by_key(|c| c.deviations()); // stable: lexicographic order kept inside a deviation class
    out
}

// ------------------------------------------------------------------------------------------
// Physical CSV layout and the YAML configuration text

const PRIMARY: &str = "USD";
const OTHER: &str = "EUR";
const SECONDARY: &str = "CHF";
/// the commodity a conversion specification names explicitly; never appears in a statement cell
const NAMED: &str = "GBP";
const RATE: &str = "1.25";
const FEE: &str = "2.50";

/// (field key in the configuration, header label) in physical column order. "-" = a column no field maps to.
fn columns(cfg: &Cfg) -> Vec<(&'static str, &'static str)> {
    let mut v = match cfg.text.map(|t| t.col).unwrap_or(0) {
        0 => vec![("date", "Date"), ("-", "Ref"), ("payee", "Payee")],
        1 => vec![("-", "Ref"), ("date", "Date"), ("payee", "Payee")],
        _ => vec![("payee", "Payee"), ("-", "Ref"), ("date", "Date")],
    };
    if cfg.bal_col() {
        v.push(("balance", "Balance"));
    }
    if cfg.crdr() {
        v.push(("credit", "Paid in"));
        v.push(("debit", "Paid out"));
    } else {
        v.push(("amount", "Amount"));
    }
    if cfg.ccy_col() {
        v.push(("commodity", "Ccy"));
    }
    if cfg.note_col() {
        v.push(("note", "Note"));
    }
    if cfg.fee_col() {
        v.push(("charge", "Fee"));
    }
    if cfg.conv_cols() {
        v.push(("rate", "Rate"));
        v.push(("secondary_amount", "Sec amount"));
        if cfg.sec_ccy_col() {
            v.push(("secondary_commodity", "Sec ccy"));
        }
    }
    v
}

fn rule_yaml(cfg: &Cfg, matcher: &str, account: bool, conv: Option<Spec>) -> String {
    let mut s = format!("  - matcher:\n      payee: \"{}\"\n", matcher);
    if account {
        s.push_str("    account: Assets:Wire\n");
    }
    if let Some(r) = conv {
        s.push_str("    conversion:\n");
        if !cfg.sec_ccy_col() && !r.disabled && !r.named {
            s.push_str(&format!("      commodity: {}\n", SECONDARY));
        }
        for l in r.yaml() {
            s.push_str(&format!("      {}\n", l));
        }
    }
    s
}

/// the pieces of the configuration document
struct Pieces {
    account_type: String,
    commodity: String,
    account: String,
    format: String,
    rewrite: String,
}

fn config_pieces(cfg: &Cfg) -> Pieces {
    let account_type = format!("account_type: {}\n", if cfg.liability() { "liability" } else { "asset" });
    let mut account = format!("account: \"{}\"\n", cfg.account());
    if cfg.fee_col() {
        account.push_str("operator: Bank Fee Desk\n");
    }
    let mut commodity = String::new();
    let default_spec = cfg.default_conv().map(|d| d.yaml()).unwrap_or_default();
    if default_spec.is_empty() {
        commodity.push_str(&format!("commodity: {}\n", PRIMARY));
    } else {
        commodity.push_str(&format!("commodity:\n  primary: {}\n  conversion:\n", PRIMARY));
        for l in &default_spec {
            commodity.push_str(&format!("    {}\n", l));
        }
    }
    let mut s = String::new();
    s.push_str("format:\n");
    s.push_str(&format!("  date: \"{}\"\n", cfg.datefmt()));
    match cfg.delim() {
        ',' => {}
        '\t' => s.push_str("  delimiter: \"\\t\"\n"),
        c => s.push_str(&format!("  delimiter: \"{}\"\n", c)),
    }
    if cfg.skip() > 0 {
        s.push_str(&format!("  skip:\n    head: {}\n", cfg.skip()));
    }
    if cfg.new_to_old() {
        s.push_str("  row_order: new_to_old\n");
    }
    s.push_str("  fields:\n");
    for (i, (key, label)) in columns(cfg).iter().enumerate() {
        if *key == "-" {
            continue;
        }
        match cfg.layout() {
            0 => s.push_str(&format!("    {}: {}\n", key, i + 1)),
            1 => s.push_str(&format!("    {}: \"{}\"\n", key, yaml_dq(&header_label(cfg, key, label)))),
            _ => {
                if *key == "date" {
                    s.push_str(&format!("    {}: {}\n", key, i + 1));
                } else {
                    s.push_str(&format!("    {}:\n      template: \"{{{}}}\"\n", key, i + 1));
                }
            }
        }
    }
    let mut rewrite = String::new();
    if let Some(st) = &cfg.stack {
        rewrite.push_str("rewrite:\n");
        for r in &st.rules[..st.n as usize] {
            rewrite.push_str(&rule_yaml(cfg, if r.matches { "^xfer" } else { "^nomatch" }, r.account, r.conv));
        }
    } else if let Some(r) = cfg.rule_conv() {
        rewrite.push_str("rewrite:\n");
        rewrite.push_str(&rule_yaml(cfg, "^xfer", true, Some(r)));
    }
    Pieces { account_type, commodity, account, format: s, rewrite }
}

const DECOY_FORMAT: &str = "format:\n  date: \"%Y%m%d\"\n  fields:\n    date: 2\n    payee: 1\n    amount: 3\n";

fn config_yaml(cfg: &Cfg) -> String {
    let p = config_pieces(cfg);
    let layer = match &cfg.layer {
        None => return format!("path: c16stmt\nencoding: UTF-8\n{}{}{}{}{}", p.account, p.account_type, p.commodity, p.format, p.rewrite),
        Some(l) => *l,
    };
    let decoy_type = format!("account_type: {}\n", if cfg.liability() { "asset" } else { "liability" });
    let truth = [&p.account_type, &p.commodity, &p.account, &p.format];
    let decoy: [String; 4] = [decoy_type.clone(), "commodity: JPY\n".to_string(), "account: \"Assets:Decoy\"\noperator: Decoy Desk\n".to_string(), DECOY_FORMAT.to_string()];
    // a document that does not match the source path, full of wrong values, listed first
    let mut s = format!("path: nomatch/\nencoding: Shift_JIS\n{}{}{}{}---\n", decoy[2], decoy_type, decoy[1], decoy[3]);
    let paths = if layer.k == 2 { vec!["c16stmt", "c16stmt.csv"] } else { vec!["c16stmt", "c16stmt.", "c16stmt.csv"] };
    // documents are listed most specific first, so list order and merge order differ
    for level in (0..layer.k as usize).rev() {
        s.push_str(&format!("path: {}\n", paths[level]));
        if level == 0 {
            s.push_str("encoding: UTF-8\n");
        }
        for a in 0..4 {
            let m = layer.masks[a];
            if m >> level & 1 == 1 {
                let is_top = m >> (level + 1) == 0;
                s.push_str(if is_top { truth[a] } else { &decoy[a] });
            }
        }
        if level == layer.k as usize - 1 {
            s.push_str(&p.rewrite);
        }
        if level > 0 {
            s.push_str("---\n");
        }
    }
    s
}

/// All layerings explored: k = 2: every assignment of a non-empty level set to each of the 4 attributes (3^4 = 81);
/// k = 3: every assignment in which at most `d3` attributes differ from "innermost level only" (7 level sets each).
fn layerings(d3: usize) -> Vec<Layer> {
    let mut v = vec![];
    for a in 1..4u8 {
        for b in 1..4u8 {
            for c in 1..4u8 {
                for d in 1..4u8 {
                    v.push(Layer { k: 2, masks: [a, b, c, d] });
                }
            }
        }
    }
    const INNER: u8 = 0b100;
    for a in 1..8u8 {
        for b in 1..8u8 {
            for c in 1..8u8 {
                for d in 1..8u8 {
                    let m = [a, b, c, d];
                    if m.iter().filter(|x| **x != INNER).count() <= d3 {
                        v.push(Layer { k: 3, masks: m });
                    }
                }
            }
        }
    }
    v
}

/// All rule lists explored: length 2 over matcher {^xfer, ^nomatch} x conversion {none, sec/compute, pri/extract, disabled} x
/// account {unset, set} (16^2 = 256); length 3 over matcher x conversion with the account set on the first rule (8^3 = 512).
fn rule_stacks() -> Vec<Stack> {
    let convs = [None, RULES[1], RULES[2], RULES[3]];
    let mut r2 = vec![];
    let mut r3 = vec![];
    for m in [true, false] {
        for c in convs {
            r3.push(RuleDef { matches: m, conv: c, account: false });
            for a in [false, true] {
                r2.push(RuleDef { matches: m, conv: c, account: a });
            }
        }
    }
    let mut v = vec![];
    for a in &r2 {
        for b in &r2 {
            v.push(Stack { n: 2, rules: [*a, *b, *b] });
        }
    }
    for a in &r3 {
        for b in &r3 {
            for c in &r3 {
                v.push(Stack { n: 3, rules: [RuleDef { account: true, ..*a }, *b, *c] });
            }
        }
    }
    v
}

// ------------------------------------------------------------------------------------------
// Row alphabet

#[derive(Clone, Copy, PartialEq, Eq, Debug)]
enum Kind {
    Credit,
    Debit,
    Zero,
}
#[derive(Clone, Copy, PartialEq, Eq, Debug)]
enum BalCell {
    Right,
    Empty,
    Wrong,
}
#[derive(Clone, Copy, Debug)]
struct Letter {
    kind: Kind,
    other: bool,
    bal: BalCell,
    /// rate and secondary amount (and, if the column exists, secondary commodity) cells are filled
    conv: bool,
    /// the charge cell is filled ...
    fee: bool,
    /// ... with: 0 = "2.50", 1 = "-0.50" (a refunded fee / rebate), 2 = "0.00", 3 = "-0.00"
    feek: u8,
    /// the payee matches the rewrite rule `^xfer`
    rule: bool,
    /// rate and secondary amount filled but the secondary-commodity cell is EMPTY (only the configured commodity exists)
    noccy: bool,
}

impl Letter {
    fn name(&self) -> String {
        let mut s = match self.kind {
            Kind::Credit => "credit",
            Kind::Debit => "debit",
            Kind::Zero => "zero",
        }
        .to_string();
        if self.other {
            s.push_str("-eur");
        }
        if self.conv {
            s.push_str("-conv");
        }
        if self.rule {
            s.push_str("-xfer");
        }
        if self.noccy {
            s.push_str("-noccy");
        }
        if self.fee {
            s.push_str(["-fee", "-negfee", "-zerofee", "-negzerofee"][self.feek as usize]);
        }
        match self.bal {
            BalCell::Right => {}
            BalCell::Empty => s.push_str("-nobal"),
            BalCell::Wrong => s.push_str("-wrongbal"),
        }
        s
    }
    /// magnitude as printed in the statement
    fn magnitude(&self) -> &'static str {
        match (self.kind, self.conv, self.other) {
            (Kind::Zero, _, _) => "0",
            (Kind::Credit, true, _) => "90.00",
            (Kind::Debit, true, _) => "45.00",
            (Kind::Credit, false, true) => "40.00",
            (Kind::Debit, false, true) => "15.50",
            (Kind::Credit, false, false) => "1,234.50",
            (Kind::Debit, false, false) => "7.25",
        }
    }
}

fn alphabet(cfg: &Cfg) -> Vec<Letter> {
    let l = |kind| Letter { kind, other: false, bal: BalCell::Right, conv: false, fee: false, feek: 0, rule: false, noccy: false };
    let mut v = vec![l(Kind::Credit), l(Kind::Debit), l(Kind::Zero)];
    let has_default = cfg.default_conv().is_some();
    let rule = cfg.rule_conv();
    if cfg.bal_col() {
        v.push(Letter { bal: BalCell::Empty, ..l(Kind::Debit) });
        v.push(Letter { bal: BalCell::Wrong, ..l(Kind::Debit) });
    }
    if cfg.ccy_col() {
        v.push(Letter { other: true, ..l(Kind::Credit) });
        v.push(Letter { other: true, ..l(Kind::Debit) });
    }
    if has_default {
        // secondary cells filled, payee not matched by the rule: the account default decides
        v.push(Letter { conv: true, ..l(Kind::Credit) });
        v.push(Letter { conv: true, ..l(Kind::Debit) });
    }
    if let Some(r) = rule {
        // secondary cells filled, payee matched by the rule: the rule's conversion decides (over the default, if any)
        v.push(Letter { conv: true, rule: true, ..l(Kind::Credit) });
        v.push(Letter { conv: true, rule: true, ..l(Kind::Debit) });
        if !has_default {
            // cells filled, not matched, and no default that could apply: a plain row
            v.push(Letter { conv: true, ..l(Kind::Debit) });
        }
        if r.named && cfg.sec_ccy_col() {
            // matched by a rule that names the commodity; the statement's secondary-commodity cell is empty
            v.push(Letter { conv: true, rule: true, noccy: true, ..l(Kind::Debit) });
        }
        if r.disabled {
            // matched by a rule that disables conversion, secondary cells empty: a plain row.
            // (With an ENABLED rule such a row has no rate: okane refuses the file; the statement is silent -> outside the alphabet.)
            v.push(Letter { rule: true, ..l(Kind::Debit) });
        }
    }
    if cfg.fee_col() {
        v.push(Letter { fee: true, ..l(Kind::Credit) });
        v.push(Letter { fee: true, ..l(Kind::Debit) });
    }
    if cfg.ccy_col() && cfg.conv_cols() {
        v.push(Letter { other: true, conv: true, rule: !has_default, ..l(Kind::Debit) });
    }
    if cfg.fee_col() && cfg.conv_cols() {
        v.push(Letter { fee: true, conv: true, rule: !has_default, ..l(Kind::Debit) });
    }
    v
}

/// number of statements of exactly n rows: |A|^n * 2^(n-1) date patterns
fn statements_of_len(a: u64, n: u32) -> u64 {
    if n == 0 {
        1
    } else {
        a.pow(n) * (1u64 << (n - 1))
    }
}

/// decode the k-th statement (0-based) over an alphabet of size a with at most max_n rows:
/// returns (letter indices, same-day flags); shorter statements first, letters lexicographic, date pattern fastest.
fn decode_statement(mut k: u64, a: u64, max_n: u32) -> (Vec<usize>, Vec<bool>) {
    for n in 0..=max_n {
        let cnt = statements_of_len(a, n);
        if k < cnt {
            if n == 0 {
                return (vec![], vec![]);
            }
            let pats = 1u64 << (n - 1);
            let pat = k % pats;
            let mut w = k / pats;
            let mut letters = vec![0usize; n as usize];
            for i in (0..n as usize).rev() {
                letters[i] = (w % a) as usize;
                w /= a;
            }
            let same: Vec<bool> = (0..n as usize).map(|i| i > 0 && (pat >> (i - 1)) & 1 == 1).collect();
            return (letters, same);
        }
        k -= cnt;
    }
    panic!("harness bug: statement index out of range");
}

// ------------------------------------------------------------------------------------------
// RefImport: the statement as figures, and the expected booking of every row

fn opening(ccy: &str) -> Q {
    if ccy == PRIMARY {
        Q::parse("5000.00")
    } else {
        Q::parse("300.00")
    }
}

/// what the reference expects of the counter-posting / assertion
#[derive(Clone, Debug)]
enum AssertExp {
    Absent,
    Exact(String, Q),
    Magnitude(String, Q),
}

#[derive(Clone, Debug)]
struct RefRow {
    id: String,
    date: NaiveDate,
    letter: Letter,
    ccy: String,
    /// the cell value(s)
    amount_cells: Vec<(&'static str, String)>,
    /// the charge of the row if it is not zero
    fee: Option<Q>,
    /// the charge cell as printed ("" = empty) and whether it shows a zero
    fee_cell: String,
    fee_zero: bool,
    /// (rate cell, secondary amount cell, secondary commodity)
    conv_cells: Option<(String, String, String)>,
    balance_cell: Option<Q>,
    // ---- expected booking ----
    /// posting on the configured account
    posting: Q,
    /// acceptable values of the counter-posting, its commodity
    counter_values: Vec<Q>,
    counter_ccy: String,
    /// rate expected on the account posting / on the counter-posting: (commodity of the rate, rate)
    acct_rate: Option<(String, Q)>,
    counter_rate: Option<(String, Q)>,
    assertion: AssertExp,
    /// every judged value had exactly one acceptable answer
    definite: bool,
    /// a conversion applies to this row, and which specification decided (for signatures)
    applies: bool,
    conv_name: String,
}

struct RefStatement {
    rows: Vec<RefRow>, // oldest first
    /// expected final balance of the account per commodity (opening + postings)
    final_balance: QMap,
    commodities: Vec<String>,
    has_wrong_balance: bool,
    /// rows WITHOUT a date, in FILE order: (gap, kind). gap g = before the g-th data line of the file (g = n: after the
    /// last); kind 0 = every cell empty, 1 = only the payee cell filled (a sub-total / separator line).
    /// STATEMENT: "for every CSV row the imported transaction ..." - a line without a date is no transaction row; it
    /// produces nothing and must not affect any other row.
    dateless: Vec<(usize, u8)>,
}

fn ref_import(cfg: &Cfg, letters: &[Letter], same: &[bool]) -> RefStatement {
    let rate = Q::parse(RATE);
    let mut date = oka::date(2024, 3, 5);
    let mut running = QMap::new();
    let mut commodities = vec![PRIMARY.to_string()];
    if cfg.ccy_col() {
        commodities.push(OTHER.to_string());
    }
    for c in &commodities {
        running.insert(c.clone(), opening(c));
    }
    let mut rows = vec![];
    let mut has_wrong = false;
    for (i, l) in letters.iter().enumerate() {
        if i > 0 && !same[i] {
            date = date.succ_opt().unwrap();
        }
        let ccy = if l.other { OTHER } else { PRIMARY }.to_string();
        let mag = Q::parse(l.magnitude());
        // the value the statement shows: credit = money into the account, debit = out of it
        let signed_cell = match l.kind {
            Kind::Credit | Kind::Zero => mag,
            Kind::Debit => mag.neg(),
        };
        let amount_cells: Vec<(&'static str, String)> = if cfg.crdr() {
            match l.kind {
                Kind::Credit | Kind::Zero => vec![("credit", cfg.spell(false, l.magnitude())), ("debit", String::new())],
                Kind::Debit => vec![("credit", String::new()), ("debit", cfg.spell(false, l.magnitude()))],
            }
        } else {
            vec![("amount", cfg.spell(l.kind == Kind::Debit, l.magnitude()))]
        };
        // STATEMENT: credit positive, debit negative; an `amount` column negated for a liability account
        let posting = if !cfg.crdr() && cfg.liability() { signed_cell.neg() } else { signed_cell };
        let fee_cell = if l.fee { [FEE, "-0.50", "0.00", "-0.00"][l.feek as usize] } else { "" }.to_string();
        let fee_zero = l.fee && l.feek >= 2;
        // a zero charge is no charge; a negative charge (refund, rebate) is a charge like any other: the account
        // movement `amount` includes it, the counter party sees amount + charge
        let fee = if l.fee && !fee_zero { Some(Q::parse(&fee_cell)) } else { None };
        // the amount that actually changes hands with the counter-party: the account movement net of the charge
        let net = posting.add(fee.unwrap_or(Q::ZERO));
        let opposite_sign = |m: Q| if posting.signum() > 0 { m.abs().neg() } else { m.abs() };
        // DOC (config.rs): the account-level conversion is the "default conversion applied to all transaction, if not
        // specified in rewrite rules"; `disabled` = "Disable all conversions". So a matching rule's specification
        // replaces the default as a whole (an enabled rule over a disabled default converts, a disabled rule over an
        // enabled default does not), and the default is considered for rows that carry rate + secondary amount +
        // secondary commodity.
        let eff = cfg.effective(l.rule, l.conv);
        let applies = eff.map(|e| !e.disabled).unwrap_or(false);
        if applies && !l.conv {
            panic!("harness bug: conversion row without figures in the alphabet");
        }
        let eff_pri = eff.map(|e| e.pri).unwrap_or(false);
        let eff_compute = eff.map(|e| e.compute).unwrap_or(false);
        let conv_name = match (cfg.rule_conv(), l.rule, cfg.default_conv(), l.conv) {
            (Some(r), true, Some(d), true) => format!("rule-{}-over-default-{}", r.name(), d.name()),
            (Some(r), true, _, _) => format!("rule-{}", r.name()),
            (_, _, Some(d), true) => format!("default-{}", d.name()),
            (_, _, None, true) => "cells-without-default".to_string(),
            _ => "no-conversion-cells".to_string(),
        };
        // what the statement's secondary-commodity cell says (None: no such column)
        let cell_ccy: Option<&str> = if !cfg.sec_ccy_col() {
            None
        } else if l.noccy {
            Some("")
        } else if l.other {
            Some(PRIMARY)
        } else {
            Some(SECONDARY)
        };
        // DOC (config.rs, CommodityConversionSpec::commodity): "Overrides `secondary_commodity` with the given value";
        // import.ja.md: without it the `secondary_commodity` field is used. An enabled rule without the column names CHF.
        let spec_names = applies && eff.map(|e| e.named).unwrap_or(false);
        if l.noccy && !spec_names {
            panic!("harness bug: empty secondary-commodity cell without a configured commodity in the alphabet");
        }
        let sec_ccy = if spec_names { NAMED } else { cell_ccy.unwrap_or(SECONDARY) }.to_string();
        let convert = |x: Q| if eff_pri { x.abs().mul(rate) } else { x.abs().div(rate) };
        let mut conv_cells = None;
        let (counter_values, counter_ccy, acct_rate, counter_rate);
        if l.conv {
            // exact figure of the statement; with amount=compute the statement shows a rounded figure that must be ignored
            let exact = if applies { convert(net) } else { net.abs().div(rate) };
            let cell = if applies && eff_compute { exact.add(Q::parse("0.01")) } else { exact };
            conv_cells = Some((RATE.to_string(), format!("{}", cell), cell_ccy.unwrap_or("").to_string()));
        }
        if applies {
            counter_ccy = sec_ccy.clone();
            if eff_compute {
                let mut v = vec![opposite_sign(convert(posting))];
                if fee.is_some() {
                    v.push(opposite_sign(convert(net)));
                }
                counter_values = v;
            } else {
                counter_values = vec![opposite_sign(convert(net))];
            }
            // the rate is attached to the commodity it prices
            if eff_pri {
                acct_rate = Some((sec_ccy.clone(), rate));
                counter_rate = None;
            } else {
                acct_rate = None;
                counter_rate = Some((ccy.clone(), rate));
            }
        } else {
            counter_ccy = ccy.clone();
            let mut v = vec![posting.neg()];
            if fee.is_some() {
                v.push(net.neg());
            }
            counter_values = v;
            acct_rate = None;
            counter_rate = None;
        }
        qmap_add(&mut running, &ccy, posting);
        let bal_now = running[&ccy];
        let balance_cell = if !cfg.bal_col() {
            None
        } else {
            match l.bal {
                BalCell::Right => Some(bal_now),
                BalCell::Empty => None,
                BalCell::Wrong => {
                    has_wrong = true;
                    Some(bal_now.add(Q::ONE))
                }
            }
        };
        let assertion = match balance_cell {
            None => AssertExp::Absent,
            Some(b) if cfg.liability() => AssertExp::Magnitude(ccy.clone(), b),
            Some(b) => AssertExp::Exact(ccy.clone(), b),
        };
        let definite = counter_values.len() == 1 && !matches!(assertion, AssertExp::Magnitude(..));
        rows.push(RefRow {
            id: format!("{} r{}", if l.rule { "xfer" } else if l.conv { "conv" } else { "shop" }, i + 1),
            date,
            letter: *l,
            ccy,
            amount_cells,
            fee,
            fee_cell,
            fee_zero,
            conv_cells,
            balance_cell,
            posting,
            counter_values,
            counter_ccy,
            acct_rate,
            counter_rate,
            assertion,
            definite,
            applies,
            conv_name,
        });
    }
    let mut fb = running.clone();
    qmap_clean(&mut fb);
    RefStatement { rows, final_balance: fb, commodities, has_wrong_balance: has_wrong, dateless: vec![] }
}

/// "1234.5" -> "1,234.50"
fn money(q: Q) -> String {
    let s = format!("{}", q);
    let (neg, body) = match s.strip_prefix('-') {
        Some(b) => (true, b.to_string()),
        None => (false, s),
    };
    let (ip, fp) = match body.split_once('.') {
        Some((a, b)) => (a.to_string(), b.to_string()),
        None => (body, String::new()),
    };
    let fp = format!("{:0<2}", fp);
    let mut g = String::new();
    for (i, c) in ip.chars().enumerate() {
        if i > 0 && (ip.len() - i) % 3 == 0 {
            g.push(',');
        }
        g.push(c);
    }
    format!("{}{}.{}", if neg { "-" } else { "" }, g, fp)
}

fn csv_text(cfg: &Cfg, st: &RefStatement) -> String {
    let d = cfg.delim();
    let cols = columns(cfg);
    let quote = |f: &str| -> String {
        if f.contains(d) || f.contains('"') {
            format!("\"{}\"", f.replace('"', "\"\""))
        } else {
            f.to_string()
        }
    };
    let mut s = String::new();
    if let Some((n, kinds)) = &cfg.preamble {
        for k in &kinds[..*n as usize] {
            match k {
                0 => s.push_str("Exported by Okane Bank\n"),
                1 => s.push('\n'),
                2 => s.push_str("   \n"),
                // a line that would import as a transaction if it were not skipped
                _ => {
                    let row: Vec<String> = cols.iter().map(|(key, _)| match *key { "date" => oka::date(2024, 1, 2).format(cfg.datefmt()).to_string(), "payee" | "-" | "note" => "preamble".to_string(), "commodity" => PRIMARY.to_string(), "amount" | "credit" | "balance" => "1.00".to_string(), _ => String::new() }).collect();
                    s.push_str(&row.join(&d.to_string()));
                    s.push('\n');
                }
            }
        }
    } else if cfg.skip() > 0 {
        s.push_str("Exported by Okane Bank\nperiod,2024-03\n");
    }
    let ds = d.to_string();
    s.push_str(
        &cols
            .iter()
            .map(|(key, l)| match &cfg.text {
                Some(t) if t.on_header() && t.key() == *key => t.render(&header_label(cfg, key, l), d),
                _ => quote(l),
            })
            .collect::<Vec<_>>()
            .join(&ds),
    );
    s.push('\n');
    let line = |(file_index, r): (usize, &RefRow)| -> String {
        cols.iter()
            .map(|(key, _)| {
                if let Some(t) = cfg.text.as_ref().filter(|t| t.on_data_line(file_index) && t.key() == *key) {
                    let cell = if *key == "payee" { format!("{} {}", t.text(), r.id) } else { t.text() };
                    return t.render(&cell, d);
                }
                let cell: String = match *key {
                    "date" => r.date.format(cfg.datefmt()).to_string(),
                    "-" => format!("ref{}", r.id.len()),
                    "payee" => r.id.clone(),
                    "balance" => r.balance_cell.map(|b| cfg.spell(b.signum() < 0, &money(b.abs()))).unwrap_or_default(),
                    "amount" | "credit" | "debit" => r.amount_cells.iter().find(|(k, _)| k == key).map(|(_, v)| v.clone()).unwrap_or_default(),
                    "commodity" => r.ccy.clone(),
                    "note" => format!("memo {}", r.id),
                    "charge" => if r.fee_cell.is_empty() { String::new() } else { cfg.spell(r.fee_cell.starts_with('-'), r.fee_cell.trim_start_matches('-')) },
                    "rate" => r.conv_cells.as_ref().map(|c| c.0.clone()).unwrap_or_default(),
                    "secondary_amount" => r.conv_cells.as_ref().map(|c| c.1.clone()).unwrap_or_default(),
                    "secondary_commodity" => r.conv_cells.as_ref().map(|c| c.2.clone()).unwrap_or_default(),
                    _ => panic!("harness bug: unknown column"),
                };
                quote(&cell)
            })
            .collect::<Vec<_>>()
            .join(&ds)
    };
    let data: Vec<String> = if cfg.new_to_old() { st.rows.iter().rev().enumerate().map(line).collect() } else { st.rows.iter().enumerate().map(line).collect() };
    let dateless_line = |kind: u8| -> String { cols.iter().map(|(key, _)| if kind == 1 && *key == "payee" { quote("Sub-total") } else { String::new() }).collect::<Vec<_>>().join(&ds) };
    for g in 0..=data.len() {
        for (_, kind) in st.dateless.iter().filter(|(gap, _)| *gap == g) {
            s.push_str(&dateless_line(*kind));
            s.push('\n');
        }
        if let Some(l) = data.get(g) {
            s.push_str(l);
            s.push('\n');
        }
    }
    if cfg.text.map(|t| t.crlf).unwrap_or(false) {
        s = s.replace('\n', "\r\n");
    }
    s
}

/// All ways to put one or two date-less lines into a file of n data lines: one line (either kind) at any of the n+1
/// gaps; two lines (an empty one, then a payee-only one) at any gaps g1 <= g2.
fn dateless_patterns(n: usize) -> Vec<Vec<(usize, u8)>> {
    let mut v = vec![];
    for g in 0..=n {
        for kind in 0..2u8 {
            v.push(vec![(g, kind)]);
        }
    }
    for g1 in 0..=n {
        for g2 in g1..=n {
            v.push(vec![(g1, 0), (g2, 1)]);
        }
    }
    v
}

// ------------------------------------------------------------------------------------------
// Observation: project an okane transaction (tree or re-parsed text) into plain data

#[derive(Clone, Debug)]
struct ObsPost {
    account: String,
    amount: Option<(Q, String)>,
    rate: Option<(Q, String)>,
    /// a cost that is not a plain `@ rate`
    odd_cost: bool,
    assertion: Option<(Q, String)>,
}
#[derive(Clone, Debug)]
struct ObsTxn {
    date: NaiveDate,
    payee: String,
    posts: Vec<ObsPost>,
}

fn eval_expr(e: &expr::Expr<'_>) -> Option<(Q, String)> {
    match e {
        expr::Expr::Value(v) => eval_value(v),
        expr::Expr::Unary(u) => eval_expr(&u.expr).map(|(q, c)| (q.neg(), c)),
        expr::Expr::Binary(_) => None,
    }
}
fn eval_value(v: &expr::ValueExpr<'_>) -> Option<(Q, String)> {
    match v {
        expr::ValueExpr::Amount(a) => Some((Q::from_decimal(a.value.value), a.commodity.to_string())),
        expr::ValueExpr::Paren(e) => eval_expr(e),
    }
}

fn observe(t: &plain::Transaction<'_>) -> ObsTxn {
    ObsTxn {
        date: t.date,
        payee: t.payee.to_string(),
        posts: t
            .posts
            .iter()
            .map(|p| {
                let (rate, odd_cost) = match p.amount.as_ref().and_then(|a| a.cost.as_ref()) {
                    None => (None, false),
                    Some(syntax::Exchange::Rate(r)) => match eval_value(r) {
                        Some(x) => (Some(x), false),
                        None => (None, true),
                    },
                    Some(syntax::Exchange::Total(_)) => (None, true),
                };
                ObsPost {
                    account: p.account.to_string(),
                    amount: p.amount.as_ref().and_then(|a| eval_value(&a.amount)),
                    rate,
                    odd_cost: odd_cost || p.amount.as_ref().map(|a| a.lot.price.is_some() || a.lot.date.is_some() || a.lot.note.is_some()).unwrap_or(false),
                    assertion: p.balance.as_ref().and_then(eval_value),
                }
            })
            .collect(),
    }
}

fn show_obs(t: &ObsTxn) -> String {
    let mut s = format!("{} {}", t.date, t.payee);
    for p in &t.posts {
        s.push_str(&format!(
            " | {} {}{}{}",
            p.account,
            p.amount.as_ref().map(|(q, c)| format!("{} {}", q, c)).unwrap_or_else(|| "<none>".into()),
            p.rate.as_ref().map(|(q, c)| format!(" @ {} {}", q, c)).unwrap_or_default(),
            p.assertion.as_ref().map(|(q, c)| format!(" = {} {}", q, c)).unwrap_or_default()
        ));
    }
    s
}

const FEE_ACCOUNT: &str = "Expenses:Commissions";

/// Compare the imported transactions (oldest first) with RefImport. `via` = "tree" | "text".
fn judge(via: &str, cfg: &Cfg, st: &RefStatement, got: &[ObsTxn]) -> Result<(), (String, String)> {
    let order = format!("{}{}{}", if cfg.new_to_old() { "new-to-old" } else { "old-to-new" }, cfg.family(), if st.dateless.is_empty() { "" } else { "/dateless-row" });
    if got.len() != st.rows.len() {
        return Err((format!("{}/row-count/{}", via, order), format!("{} rows in the statement, {} transactions imported", st.rows.len(), got.len())));
    }
    // oldest first: the i-th transaction is the i-th oldest row
    // the row id lives in the payee. One exception: a payee cell containing `;` is printed as it is, and the ledger syntax
    // reads the rest of the header line as a comment; the payee text is not C16's (DON'T-CARE), so in the re-parsed text
    // such a row is recognised by the part of its payee before the `;` (and, as always, by its date).
    let cut_payee = via == "text" && cfg.text.map(|t| t.col == 2 && t.ch == b';').unwrap_or(false);
    let payee_ok = |g: &ObsTxn, r: &RefRow| g.payee.contains(&r.id) || (cut_payee && format!("{} {}", cfg.text.unwrap().text(), r.id).starts_with(g.payee.trim()));
    for (i, (r, g)) in st.rows.iter().zip(got).enumerate() {
        if !payee_ok(g, r) || g.date != r.date {
            let seq: Vec<String> = got.iter().map(|g| format!("{} {}", g.date, g.payee)).collect();
            return Err((format!("{}/not-oldest-first/{}", via, order), format!("transaction {} should be row '{}' of {} but is '{}' of {}; output order: {:?}", i + 1, r.id, r.date, g.payee, g.date, seq)));
        }
    }
    for (r, g) in st.rows.iter().zip(got) {
        let shape = format!("{}/{}", cfg.value_shape(), r.letter.name());
        let convshape = format!("{}{}/{}", r.conv_name, cfg.family(), r.letter.name());
        let ctx = |what: &str| format!("row '{}': {}; imported: {}", r.id, what, show_obs(g));
        let acct: Vec<&ObsPost> = g.posts.iter().filter(|p| p.account == cfg.account()).collect();
        let fees: Vec<&ObsPost> = g.posts.iter().filter(|p| p.account == FEE_ACCOUNT).collect();
        let others: Vec<&ObsPost> = g.posts.iter().filter(|p| p.account != cfg.account() && p.account != FEE_ACCOUNT).collect();
        if acct.len() != 1 {
            return Err((format!("{}/account-posting/count/{}", via, shape), ctx(&format!("expected exactly one posting on {}", cfg.account()))));
        }
        if others.len() != 1 {
            return Err((format!("{}/counter-posting/count/{}", via, shape), ctx("expected exactly one counter-posting")));
        }
        // a cell showing zero: okane books no charge posting; one of 0 would be equally right (statement silent)
        if r.fee.is_none() && !fees.is_empty() && !(r.fee_zero && fees.iter().all(|p| p.amount.as_ref().map(|(v, _)| v.is_zero()).unwrap_or(false))) {
            return Err((format!("{}/charge-posting/unexpected/{}", via, shape), ctx("row has no charge but a charge posting was booked")));
        }
        if g.posts.iter().any(|p| p.odd_cost) {
            return Err((format!("{}/rate/not-a-unit-rate/{}", via, convshape), ctx("a cost other than a plain '@ rate' was emitted")));
        }
        let (a, c) = (acct[0], others[0]);
        // --- account posting: sign, amount, commodity
        match &a.amount {
            None => return Err((format!("{}/account-posting/no-amount/{}", via, shape), ctx("account posting without amount"))),
            Some((v, ccy)) => {
                if *ccy != r.ccy {
                    return Err((format!("{}/account-posting/commodity/{}", via, shape), ctx(&format!("account posting should be in {}", r.ccy))));
                }
                if *v != r.posting {
                    let kind = if *v == r.posting.neg() { "sign" } else { "amount" };
                    return Err((format!("{}/account-posting/{}/{}", via, kind, shape), ctx(&format!("account posting should be {} {}", r.posting, r.ccy))));
                }
            }
        }
        // --- counter-posting
        match &c.amount {
            None => return Err((format!("{}/counter-posting/no-amount/{}", via, convshape), ctx("counter-posting without amount"))),
            Some((v, ccy)) => {
                if *ccy != r.counter_ccy {
                    return Err((format!("{}/counter-posting/commodity/{}", via, convshape), ctx(&format!("counter-posting should be in {}", r.counter_ccy))));
                }
                if !r.counter_values.contains(v) {
                    let kind = if r.counter_values.iter().any(|x| x.neg() == *v) { "sign" } else { "amount" };
                    let want: Vec<String> = r.counter_values.iter().map(|x| format!("{} {}", x, r.counter_ccy)).collect();
                    return Err((format!("{}/counter-posting/{}/{}", via, kind, convshape), ctx(&format!("counter-posting should be {}", want.join(" or ")))));
                }
            }
        }
        // --- rate attached to the commodity it prices
        let rate_eq = |got: &Option<(Q, String)>, want: &Option<(String, Q)>| match (got, want) {
            (None, None) => true,
            (Some((q, c)), Some((wc, wq))) => q == wq && c == wc,
            _ => false,
        };
        if !rate_eq(&a.rate, &r.acct_rate) || !rate_eq(&c.rate, &r.counter_rate) {
            let kind = match (&a.rate, &c.rate, &r.acct_rate, &r.counter_rate) {
                (None, None, _, _) => "missing",
                (_, _, None, None) => "unexpected",
                (Some(_), None, None, Some(_)) | (None, Some(_), Some(_), None) => "on-wrong-posting",
                _ => "value",
            };
            let want = match (&r.acct_rate, &r.counter_rate) {
                (Some((c, q)), _) => format!("'@ {} {}' on the account posting ({})", q, c, r.ccy),
                (_, Some((c, q))) => format!("'@ {} {}' on the counter-posting ({})", q, c, r.counter_ccy),
                _ => "no rate".to_string(),
            };
            return Err((format!("{}/rate/{}/{}", via, kind, convshape), ctx(&format!("expected {}", want))));
        }
        // --- running balance -> assertion on the account posting
        if c.assertion.is_some() || fees.iter().any(|p| p.assertion.is_some()) {
            return Err((format!("{}/assertion/not-on-account-posting/{}", via, shape), ctx("a balance assertion was placed on a posting other than the account's")));
        }
        match (&r.assertion, &a.assertion) {
            (AssertExp::Absent, None) => {}
            (AssertExp::Absent, Some(_)) => return Err((format!("{}/assertion/unexpected/{}", via, shape), ctx("no running balance in the row but an assertion was emitted"))),
            (_, None) => return Err((format!("{}/assertion/missing/{}", via, shape), ctx("the running balance did not become an assertion on the account posting"))),
            (AssertExp::Exact(wc, wq), Some((q, cc))) => {
                if q != wq || cc != wc {
                    return Err((format!("{}/assertion/value/{}", via, shape), ctx(&format!("assertion should be = {} {}", wq, wc))));
                }
            }
            (AssertExp::Magnitude(wc, wq), Some((q, cc))) => {
                if q.abs() != wq.abs() || cc != wc {
                    return Err((format!("{}/assertion/value/{}", via, shape), ctx(&format!("assertion should be = +-{} {}", wq, wc))));
                }
            }
        }
    }
    Ok(())
}

// ------------------------------------------------------------------------------------------
// Running the real importer

/// Scratch files of one worker: `cfgN.yml` and the statement `c16stmt.csv` that ImportCmd opens by path.
/// Creating or re-writing a file costs 1.5-3 ms on the scratch file system (ext4 allocates at close when a file
/// is replaced by truncation), 10x everything else in a case; so where the kernel offers it the statement
/// lives in an anonymous memory file and `c16stmt.csv` is a symbolic link to it (/proc/self/fd/N).
struct MemFile {
    path: PathBuf,
    mem: Option<std::fs::File>,
}

impl MemFile {
    fn new(dir: &std::path::Path, name: &str) -> MemFile {
        use std::os::unix::io::FromRawFd;
        let path = dir.join(name);
        let _ = std::fs::remove_file(&path);
        let cname = std::ffi::CString::new("c16").unwrap();
        let fd = unsafe { libc::memfd_create(cname.as_ptr(), 0) };
        let mut mem = None;
        if fd >= 0 {
            let f = unsafe { std::fs::File::from_raw_fd(fd) };
            if std::os::unix::fs::symlink(format!("/proc/self/fd/{}", fd), &path).is_ok() && std::fs::File::open(&path).is_ok() {
                mem = Some(f);
            } else {
                let _ = std::fs::remove_file(&path);
            }
        }
        MemFile { path, mem }
    }
    fn put(&self, text: &str) {
        use std::os::unix::fs::FileExt;
        match &self.mem {
            Some(f) => {
                f.set_len(0).expect("scratch file");
                f.write_all_at(text.as_bytes(), 0).expect("scratch file");
            }
            None => std::fs::write(&self.path, text).expect("scratch file"),
        }
    }
}

struct Files {
    /// id of the configuration currently in `config`
    written_cfg: Option<usize>,
    source: MemFile,
    config: MemFile,
}

impl Files {
    fn new() -> Files {
        let dir = oka::scratch_dir("c16");
        Files { written_cfg: None, source: MemFile::new(&dir, "c16stmt.csv"), config: MemFile::new(&dir, "c16config.yml") }
    }
}

fn err_chain(e: &dyn std::error::Error) -> String {
    let mut s = e.to_string();
    let mut cur = e.source();
    while let Some(c) = cur {
        s.push_str(": ");
        s.push_str(&c.to_string());
        cur = c.source();
    }
    s
}

fn import_tree(entry: &icfg::ConfigEntry, csv: &str) -> Result<Vec<ObsTxn>, String> {
    let txns = import::import(csv.as_bytes(), Format::Csv, entry).map_err(|e| format!("import: {}", err_chain(&e)))?;
    let mut out = vec![];
    for t in &txns {
        let d = t.to_double_entry(&entry.account).map_err(|e| format!("to_double_entry: {}", err_chain(&e)))?;
        out.push(observe(&d));
    }
    Ok(out)
}

fn import_text(files: &Files, csv: &str) -> Result<String, String> {
    files.source.put(csv);
    let mut out: Vec<u8> = vec![];
    okane::cmd::ImportCmd { config: files.config.path.clone(), source: files.source.path.clone() }.run(&mut out).map_err(|e| format!("ImportCmd: {}", err_chain(&e)))?;
    String::from_utf8(out).map_err(|e| format!("output not UTF-8: {}", e))
}

fn parse_text(text: &str) -> Result<Vec<ObsTxn>, String> {
    let mut out = vec![];
    for r in parse_ledger::<plain::Ident>(&ParseOptions::default(), text) {
        match r {
            Ok((_, syntax::LedgerEntry::Txn(t))) => out.push(observe(&t)),
            Ok((_, _)) => return Err("printed output contains an entry that is not a transaction".into()),
            Err(e) => return Err(format!("printed output does not parse: {}", e.to_string().lines().next().unwrap_or(""))),
        }
    }
    Ok(out)
}

fn funding(cfg: &Cfg, st: &RefStatement) -> String {
    let mut s = String::from("2024/01/01 * opening balance\n");
    for c in &st.commodities {
        s.push_str(&format!("    {}    {} {}\n", cfg.account(), opening(c), c));
        s.push_str(&format!("    Equity:Opening    -{} {}\n", opening(c), c));
    }
    s.push('\n');
    s
}

fn first_line(s: &str) -> String {
    s.lines().filter(|l| !l.trim().is_empty()).take(3).collect::<Vec<_>>().join(" / ")
}

fn run_case(cfg: &Cfg, _cfg_index: usize, entry: &icfg::ConfigEntry, files: &Files, st: &RefStatement, csv: &str, transitions: &mut u64, validated: &mut u64) -> Outcome {
    let shape_all = {
        let mut fl: Vec<&str> = vec![];
        if st.rows.iter().any(|r| r.fee.is_some()) {
            fl.push("charge");
        }
        if st.rows.iter().any(|r| r.fee.map(|f| f.signum() < 0).unwrap_or(false)) {
            fl.push("negative-charge");
        }
        if st.rows.iter().any(|r| r.fee_zero) {
            fl.push("zero-charge");
        }
        if st.rows.iter().any(|r| r.letter.conv) {
            fl.push("conv-row");
        }
        if st.rows.iter().any(|r| r.letter.rule) {
            fl.push("xfer-row");
        }
        if st.rows.iter().any(|r| r.letter.other) {
            fl.push("eur-row");
        }
        if st.rows.iter().any(|r| r.letter.kind == Kind::Zero) {
            fl.push("zero-row");
        }
        if !st.dateless.is_empty() {
            fl.push("dateless-row");
        }
        if fl.is_empty() {
            "plain".to_string()
        } else {
            fl.join("+")
        }
    };
    // (1) tree
    let tree = match import_tree(entry, csv) {
        Ok(t) => t,
        Err(e) => return Outcome::violation(format!("tree/import-failed/{}{}/{}", cfg.conv_name(), cfg.family(), shape_all), format!("well-formed statement was not imported: {}", e)),
    };
    *transitions += tree.len() as u64;
    if let Err((sig, detail)) = judge("tree", cfg, st, &tree) {
        return Outcome::violation(sig, detail);
    }
    // (2) printed text through the command
    let text = match import_text(files, csv) {
        Ok(t) => t,
        Err(e) => return Outcome::violation(format!("text/import-failed/{}{}/{}", cfg.conv_name(), cfg.family(), shape_all), format!("ImportCmd failed on a statement the library imported: {}", e)),
    };
    let parsed = match parse_text(&text) {
        Ok(p) => p,
        Err(e) => return Outcome::violation(format!("text/unreadable/{}", shape_all), format!("{}\n{}", e, text)),
    };
    *transitions += parsed.len() as u64;
    if let Err((sig, detail)) = judge("text", cfg, st, &parsed) {
        return Outcome::violation(sig, detail);
    }
    // (3) end to end: asset account, running balance column
    let acct = if cfg.liability() { "liability" } else { "asset" };
    let definite = st.rows.iter().all(|r| r.definite);
    let e2e = if cfg.liability() {
        "e2e-na-liability"
    } else {
        let ledger = format!("{}{}", funding(cfg, st), text);
        let res = oka::process_text(&ledger);
        if !cfg.bal_col() {
            // statement has no running balance: the clause does not apply; executed for crashes only
            let _ = res;
            "e2e-na-no-balance-col"
        } else if st.has_wrong_balance {
            match res {
                Err(_) => "e2e-wrong-balance-rejected",
                Ok(_) => return Outcome::violation(format!("e2e/inconsistent-balance-accepted/{}", shape_all), format!("a statement with a wrong running balance imports into a ledger that is accepted, so the column did not become an effective assertion\n{}", ledger)),
            }
        } else {
            match res {
                Err(e) => {
                    // name the row whose transaction okane rejects: the error points at a line of the ledger text
                    let culprit = oka::rendered_location(&e.rendered).and_then(|(_, line, _)| {
                        let headers = ledger.lines().take(line).filter(|l| l.starts_with(|c: char| c.is_ascii_digit())).count();
                        headers.checked_sub(2).and_then(|i| st.rows.get(i))
                    });
                    let row_shape = match culprit {
                        None => "row-unknown".to_string(),
                        Some(r) => {
                            let mut fl: Vec<&str> = vec![];
                            if r.fee.is_some() {
                                fl.push(if r.fee.unwrap().signum() < 0 { "negative-charge" } else { "charge" });
                            }
                            if r.fee_zero {
                                fl.push("zero-charge");
                            }
                            if r.letter.other {
                                fl.push("eur");
                            }
                            if r.letter.kind == Kind::Zero {
                                fl.push("zero");
                            }
                            if fl.is_empty() {
                                fl.push("plain");
                            }
                            format!("{}-row/{}", fl.join("+"), if r.applies { r.conv_name.as_str() } else { "no-conversion" })
                        }
                    };
                    return Outcome::violation(
                        format!("e2e/consistent-statement-rejected/{}/{}", e.variant, row_shape),
                        format!("consistent running balance, but okane rejects its own import output{}: {}\n{}", culprit.map(|r| format!(" at row '{}' ({})", r.id, r.letter.name())).unwrap_or_default(), first_line(&e.rendered), ledger),
                    );
                }
                Ok((bal, _)) => {
                    let got = bal.get(cfg.account()).cloned().unwrap_or_default();
                    if got != st.final_balance {
                        return Outcome::violation(
                            format!("e2e/final-balance/{}/{}", cfg.conv_name(), shape_all),
                            format!("account ends at {} but the statement's last balance is {}\n{}", qmap_show(&got), qmap_show(&st.final_balance), ledger),
                        );
                    }
                    "e2e-accepted-final-balance-ok"
                }
            }
        }
    };
    let class = if let Some(t) = &cfg.text {
        format!("{}/with-cell-text-{}/{}", acct, ["ref-2nd-col", "ref-1st-col", "payee-1st-col"][t.col as usize], e2e)
    } else if st.dateless.is_empty() {
        format!("{}/{}/{}{}", acct, cfg.conv_name(), e2e, if definite { "" } else { "/partly-dont-care" })
    } else {
        format!("{}/with-dateless-lines/{}", acct, e2e)
    };
    if definite {
        *validated += 1;
    }
    Outcome::pass(class)
}

fn one_case(ctx: &mut Ctx, cfg: &Cfg, ci: usize, entry: &icfg::ConfigEntry, files: &Files, yaml: &str, st: RefStatement) {
    let csv = csv_text(cfg, &st);
    let mut transitions = 0u64;
    let mut validated = 0u64;
    ctx.case(
        || {
            let names: Vec<String> = st.rows.iter().map(|r| format!("{}@{}", r.letter.name(), r.date)).collect();
            format!("config #{} [{}], statement [{}]{}\n--- config\n{}--- csv\n{}", ci, cfg.describe(), names.join(", "), if st.dateless.is_empty() { String::new() } else { format!(", date-less lines (file gap, kind) {:?}", st.dateless) }, yaml, csv)
        },
        || run_case(cfg, ci, entry, files, &st, &csv, &mut transitions, &mut validated),
    );
    ctx.count("transitions", transitions);
    ctx.count("validated", validated);
}

/// Lazily loaded real ConfigEntry + configuration file of one configuration.
struct Loaded<'a> {
    id: usize,
    cfg: &'a Cfg,
    yaml: String,
    entry: Option<icfg::ConfigEntry>,
}

impl<'a> Loaded<'a> {
    fn new(id: usize, cfg: &'a Cfg) -> Loaded<'a> {
        // the YAML text is rendered only when a case of this configuration belongs to this worker
        Loaded { id, cfg, yaml: String::new(), entry: None }
    }
    fn prepare(&mut self, files: &mut Files) {
        if self.yaml.is_empty() {
            self.yaml = config_yaml(self.cfg);
        }
        if self.entry.is_none() {
            let set = icfg::load_from_yaml(self.yaml.as_bytes()).unwrap_or_else(|e| panic!("harness bug: configuration does not load: {}\n{}", err_chain(&e), self.yaml));
            // a ConfigSet that cannot be resolved is a verdict about okane's merge, not a harness failure: leave entry empty
            if let Ok(Some(e)) = set.select(std::path::Path::new("/x/c16stmt.csv")) {
                self.entry = Some(e);
            }
        }
        if files.written_cfg != Some(self.id) {
            files.config.put(&self.yaml);
            files.written_cfg = Some(self.id);
        }
    }
    /// run one statement (letters + same-day flags + date-less lines) if the case belongs to this worker
    fn statement(&mut self, ctx: &mut Ctx, files: &mut Files, letters: &[Letter], same: &[bool], dateless: &[(usize, u8)]) {
        if !ctx.next_is_mine() {
            ctx.skip_cases(1);
            return;
        }
        self.prepare(files);
        let mut st = ref_import(self.cfg, letters, same);
        st.dateless = dateless.to_vec();
        match self.entry.as_ref() {
            Some(e) => one_case(ctx, self.cfg, self.id, e, files, &self.yaml, st),
            None => {
                let (cfg, yaml) = (self.cfg, &self.yaml);
                ctx.case(|| format!("config [{}]\n--- config\n{}", cfg.describe(), yaml), || Outcome::violation(format!("config/not-resolved/{}", if cfg.layer.is_some() { "fragments" } else { "single" }), "a complete configuration (every mandatory attribute set by some matching fragment) was not resolved for the source path"));
            }
        }
    }
}

fn run(ctx: &mut Ctx) {
    let d = ctx.tier.pick(2usize, 3usize);
    let thorough = ctx.tier.pick(false, true);
    // rows per statement: <= 3; thorough: <= 4 for configurations with <= 1 deviation (the full product
    // d<=3 x n<=4 is > 20 M imports, beyond the 10-minute budget)
    let rows_for = |c: &Cfg| -> u32 {
        match thorough {
            true if c.deviations() <= 1 => 4,
            _ => 3,
        }
    };
    // date-less lines are explored for configurations with <= 1 deviation, and with 2 deviations when one of them is
    // row_order=new_to_old (thorough: all configurations with <= 2 deviations)
    let dateless_for = |c: &Cfg| -> bool { c.deviations() <= 1 || (c.deviations() == 2 && (c.new_to_old() || thorough)) };
    let cfgs = configs(d);
    let mut files = Files::new();
    let mut total_statements = 0u64;
    let mut total_dateless = 0u64;
    let mut max_alpha = 0usize;
    for (ci, cfg) in cfgs.iter().enumerate() {
        let alpha = alphabet(cfg);
        max_alpha = max_alpha.max(alpha.len());
        let a = alpha.len() as u64;
        let max_rows = rows_for(cfg);
        let n_stmt: u64 = (0..=max_rows).map(|n| statements_of_len(a, n)).sum();
        total_statements += n_stmt;
        let mut loaded = Loaded::new(ci, cfg);
        for k in 0..n_stmt {
            if !ctx.next_is_mine() {
                ctx.skip_cases(1);
                continue;
            }
            let (li, same) = decode_statement(k, a, max_rows);
            let letters: Vec<Letter> = li.iter().map(|i| alpha[*i]).collect();
            loaded.statement(ctx, &mut files, &letters, &same, &[]);
        }
        // date-less lines (blank / sub-total rows) at every position: statements over {credit, debit} only
        if !dateless_for(cfg) {
            continue;
        }
        for n in 0..=max_rows {
            let pats = dateless_patterns(n as usize);
            let n_stmt = statements_of_len(2, n);
            let offset: u64 = (0..n).map(|m| statements_of_len(2, m)).sum();
            total_dateless += n_stmt * pats.len() as u64;
            for k in 0..n_stmt {
                for pat in &pats {
                    if !ctx.next_is_mine() {
                        ctx.skip_cases(1);
                        continue;
                    }
                    let (li, same) = decode_statement(offset + k, 2, max_rows);
                    let letters: Vec<Letter> = li.iter().map(|i| alpha[*i]).collect();
                    loaded.statement(ctx, &mut files, &letters, &same, pat);
                }
            }
        }
    }
    // ---- the configuration written as nested fragments: every layering x every one-row statement
    let mut next_id = cfgs.len();
    let lay = layerings(if thorough { 2 } else { 1 });
    let mut total_layered = 0u64;
    let mut layered_configs = 0u64;
    for base in cfgs.iter().filter(|c| c.deviations() <= if thorough { 2 } else { 1 }) {
        let alpha = alphabet(base);
        for l in &lay {
            let cfg = Cfg { layer: Some(*l), ..*base };
            let mut loaded = Loaded::new(next_id, &cfg);
            next_id += 1;
            layered_configs += 1;
            for letter in &alpha {
                total_layered += 1;
                loaded.statement(ctx, &mut files, &[*letter], &[false], &[]);
            }
        }
    }
    // ---- lists of two and three rewrite rules
    let stacks = rule_stacks();
    let mut total_stacked = 0u64;
    let l0 = Letter { kind: Kind::Debit, other: false, bal: BalCell::Right, conv: true, fee: false, feek: 0, rule: true, noccy: false };
    let x_debit = l0;
    let x_credit = Letter { kind: Kind::Credit, ..l0 };
    let cv_debit = Letter { rule: false, ..l0 };
    let stack_statements: Vec<Vec<Letter>> = vec![vec![x_credit], vec![x_debit], vec![x_debit, x_credit], vec![cv_debit]];
    let n_defaults = if thorough { DEFAULTS.len() } else { 2 };
    for dflt in 0..n_defaults {
        for st in &stacks {
            let mut choice = [0u8; 13];
            choice[9] = dflt as u8;
            let cfg = Cfg { choice, layer: None, stack: Some(*st), preamble: None, style: 0, text: None };
            let mut loaded = Loaded::new(next_id, &cfg);
            next_id += 1;
            for letters in &stack_statements {
                total_stacked += 1;
                let same = vec![false; letters.len()];
                loaded.statement(ctx, &mut files, letters, &same, &[]);
            }
        }
    }
    // ---- value classes of the charge cell: {empty, positive, negative, zero, negative zero} x {credit, debit} x
    //      {no conversion cells, conversion cells} on every configuration that has the charge column
    let mut total_charge = 0u64;
    let mut charge_configs = 0u64;
    for base in cfgs.iter().filter(|c| c.fee_col()) {
        let has_default = base.default_conv().is_some();
        let mut alpha: Vec<Letter> = vec![];
        for conv in [false, true] {
            if conv && !base.conv_cols() {
                continue;
            }
            for kind in [Kind::Credit, Kind::Debit] {
                for (fee, feek) in [(false, 0u8), (true, 0), (true, 1), (true, 2), (true, 3)] {
                    alpha.push(Letter { kind, other: false, bal: BalCell::Right, conv, fee, feek, rule: conv && !has_default, noccy: false });
                }
            }
        }
        let a = alpha.len() as u64;
        let max_rows = 2u32;
        let n_stmt: u64 = (0..=max_rows).map(|n| statements_of_len(a, n)).sum();
        total_charge += n_stmt;
        charge_configs += 1;
        let mut loaded = Loaded::new(next_id, base);
        next_id += 1;
        for k in 0..n_stmt {
            if !ctx.next_is_mine() {
                ctx.skip_cases(1);
                continue;
            }
            let (li, same) = decode_statement(k, a, max_rows);
            let letters: Vec<Letter> = li.iter().map(|i| alpha[*i]).collect();
            loaded.statement(ctx, &mut files, &letters, &same, &[]);
        }
    }
    // ---- statement preambles: skip.head = n in 0..=3 x ALL sequences of n preamble lines over {text, blank, whitespace only,
    //      data-like} x layout {index, label} x row_order x 4 statements
    let mut total_preamble = 0u64;
    let p0 = Letter { kind: Kind::Credit, other: false, bal: BalCell::Right, conv: false, fee: false, feek: 0, rule: false, noccy: false };
    let p1 = Letter { kind: Kind::Debit, ..p0 };
    let pre_statements: Vec<Vec<Letter>> = vec![vec![], vec![p0], vec![p1, p0], vec![p0, p1, p1]];
    for layout in [0u8, 1] {
        for order in [0u8, 1] {
            for n in 0..=3u8 {
                for w in 0..4u32.pow(n as u32) {
                    let mut kinds = [0u8; 3];
                    for i in 0..n as usize {
                        kinds[i] = ((w >> (2 * i)) & 3) as u8;
                    }
                    let mut choice = [0u8; 13];
                    choice[0] = layout;
                    choice[11] = order;
                    let cfg = Cfg { choice, layer: None, stack: None, preamble: Some((n, kinds)), style: 0, text: None };
                    let mut loaded = Loaded::new(next_id, &cfg);
                    next_id += 1;
                    for letters in &pre_statements {
                        total_preamble += 1;
                        let same = vec![false; letters.len()];
                        loaded.statement(ctx, &mut files, letters, &same, &[]);
                    }
                }
            }
        }
    }
    // ---- spellings of the amount-bearing cells (amount / credit / debit / balance / charge): 4 styles x
    //      {default, credit+debit, liability, charge column} x ALL statements of <= 2 rows over {credit, debit (, with +/- charge)}
    let mut total_style = 0u64;
    for style in 1..=4u8 {
        for dim in [usize::MAX, 4, 10, 8] {
            let mut choice = [0u8; 13];
            if dim != usize::MAX {
                choice[dim] = 1;
            }
            let cfg = Cfg { choice, layer: None, stack: None, preamble: None, style, text: None };
            let mut alpha = vec![p0, p1];
            if cfg.fee_col() {
                alpha.push(Letter { fee: true, feek: 0, ..p1 });
                alpha.push(Letter { fee: true, feek: 1, ..p0 });
            }
            let a = alpha.len() as u64;
            let n_stmt: u64 = (0..=2).map(|n| statements_of_len(a, n)).sum();
            let mut loaded = Loaded::new(next_id, &cfg);
            next_id += 1;
            for k in 0..n_stmt {
                total_style += 1;
                let (li, same) = decode_statement(k, a, 2);
                let letters: Vec<Letter> = li.iter().map(|i| alpha[*i]).collect();
                loaded.statement(ctx, &mut files, &letters, &same, &[]);
            }
        }
    }
    // ---- free text of a cell: EVERY printable ASCII byte (and, inside quotes, tab / line feed) as first / inner / last byte of
    //      the unmapped Ref cell or of the payee cell, with that cell in the first column of the record or not, in the header
    //      line, in one data line or in every line; bare and quoted; delimiters, row orders, LF / CRLF
    let mut total_text = 0u64;
    let text_letters = [p0, p1, p1];
    let text_same = [false, true, false];
    // (delimiter, row order, CRLF, places, quoted forms)
    let mut text_variants: Vec<(u8, u8, bool, Vec<u8>, Vec<bool>)> = vec![];
    if thorough {
        for delim in 0..3u8 {
            for order in 0..2u8 {
                for crlf in [false, true] {
                    text_variants.push((delim, order, crlf, vec![0, 1, 2], vec![false, true]));
                }
            }
        }
    } else {
        text_variants.push((0, 0, false, vec![0, 1, 2], vec![false, true]));
        text_variants.push((1, 0, false, vec![0], vec![false]));
        text_variants.push((2, 0, false, vec![0], vec![false]));
        text_variants.push((0, 1, false, vec![0], vec![false]));
        text_variants.push((0, 0, true, vec![0], vec![false]));
    }
    for (delim, order, crlf, places, quotes) in &text_variants {
        for layout in [0u8, 1] {
            for col in 0..3u8 {
                let mut bytes: Vec<u8> = (0x20..=0x7eu8).collect();
                if col != 2 {
                    bytes.push(b'\t');
                    bytes.push(b'\n');
                }
                for place in places {
                    for quoted in quotes {
                        for ch in &bytes {
                            for target in 0..5u8 {
                                let mut choice = [0u8; 13];
                                choice[0] = layout;
                                choice[1] = *delim;
                                choice[11] = *order;
                                let cfg = Cfg { choice, layer: None, stack: None, preamble: None, style: 0, text: Some(CellText { ch: *ch, place: *place, quoted: *quoted, col, target, crlf: *crlf }) };
                                let mut loaded = Loaded::new(next_id, &cfg);
                                next_id += 1;
                                total_text += 1;
                                loaded.statement(ctx, &mut files, &text_letters, &text_same, &[]);
                            }
                        }
                    }
                }
            }
        }
    }
    ctx.fact("cell_text_config_x_statement", total_text);
    ctx.fact("preamble_config_x_statement", total_preamble);
    ctx.fact("cell_spelling_config_x_statement", total_style);
    ctx.fact("charge_value_class_configurations", charge_configs);
    ctx.fact("charge_value_class_config_x_statement", total_charge);
    ctx.fact("configurations", cfgs.len() as u64);
    ctx.fact("max_deviations", d as u64);
    ctx.fact("max_rows", ctx.tier.pick(3u64, 4u64));
    ctx.fact("max_rows_for_configurations_with_2_or_more_deviations", 3u64);
    ctx.fact("max_alphabet", max_alpha as u64);
    ctx.fact("config_x_statement", total_statements);
    ctx.fact("config_x_statement_x_dateless_pattern", total_dateless);
    ctx.fact("layerings", lay.len() as u64);
    ctx.fact("layered_configurations", layered_configs);
    ctx.fact("layered_config_x_statement", total_layered);
    ctx.fact("rule_lists", stacks.len() as u64);
    ctx.fact("rule_list_config_x_statement", total_stacked);
    for k in 0..=d {
        ctx.fact(&format!("configurations_with_{}_deviations", k), cfgs.iter().filter(|c| c.deviations() == k).count() as u64);
    }
}
